//! Reference model "R-match": the definitional membership relation w[i..j] in L(t), by dynamic
//! programming over sub-strings, straight from the SMT-LIB semantics (complement = negation,
//! loop = counted iteration). Works on cell strings. Also the Ast type shared by specification
//! trees and by the read-only view of the implementation's terms.

use std::collections::HashMap;
use std::fmt;
use std::sync::Arc;

use crate::dfa::{Cell, Dfa};

#[derive(Debug)]
pub enum Ast {
    Empty,
    Eps,
    /// one-letter strings whose letter lies in cells lo..=hi
    Cells(Cell, Cell),
    Concat(Arc<Ast>, Arc<Ast>),
    Loop(Arc<Ast>, u32, Option<u32>),
    Compl(Arc<Ast>),
    Union(Vec<Arc<Ast>>),
    Inter(Vec<Arc<Ast>>),
    /// left quotient by one cell: { w | c.w in L(t) }
    Quot(Arc<Ast>, Cell),
}

pub type A = Arc<Ast>;

pub fn empty() -> A {
    Arc::new(Ast::Empty)
}
pub fn eps() -> A {
    Arc::new(Ast::Eps)
}
pub fn cells(lo: Cell, hi: Cell) -> A {
    Arc::new(Ast::Cells(lo, hi))
}
pub fn concat(a: &A, b: &A) -> A {
    Arc::new(Ast::Concat(a.clone(), b.clone()))
}
pub fn concat_list(v: &[A]) -> A {
    let mut r = eps();
    for x in v.iter().rev() {
        r = concat(x, &r);
    }
    r
}
pub fn looped(a: &A, lo: u32, hi: Option<u32>) -> A {
    Arc::new(Ast::Loop(a.clone(), lo, hi))
}
pub fn compl(a: &A) -> A {
    Arc::new(Ast::Compl(a.clone()))
}
pub fn union(v: Vec<A>) -> A {
    Arc::new(Ast::Union(v))
}
pub fn inter(v: Vec<A>) -> A {
    Arc::new(Ast::Inter(v))
}
pub fn quot(a: &A, c: Cell) -> A {
    Arc::new(Ast::Quot(a.clone(), c))
}
pub fn full() -> A {
    compl(&empty())
}

impl fmt::Display for Ast {
    fn fmt(&self, f: &mut fmt::Formatter<'_>) -> fmt::Result {
        match self {
            Ast::Empty => write!(f, "0"),
            Ast::Eps => write!(f, "e"),
            Ast::Cells(a, b) => {
                if a == b {
                    write!(f, "c{a}")
                } else {
                    write!(f, "c{a}-{b}")
                }
            }
            Ast::Concat(a, b) => write!(f, "({a}.{b})"),
            Ast::Loop(a, lo, hi) => match hi {
                Some(h) => write!(f, "{a}^[{lo},{h}]"),
                None => write!(f, "{a}^[{lo},inf]"),
            },
            Ast::Compl(a) => write!(f, "~{a}"),
            Ast::Union(v) => {
                write!(f, "(")?;
                if v.is_empty() {
                    write!(f, "U{{}}")?;
                }
                for (i, x) in v.iter().enumerate() {
                    if i > 0 {
                        write!(f, "+")?;
                    }
                    write!(f, "{x}")?;
                }
                write!(f, ")")
            }
            Ast::Inter(v) => {
                write!(f, "(")?;
                if v.is_empty() {
                    write!(f, "I{{}}")?;
                }
                for (i, x) in v.iter().enumerate() {
                    if i > 0 {
                        write!(f, "&")?;
                    }
                    write!(f, "{x}")?;
                }
                write!(f, ")")
            }
            Ast::Quot(a, c) => write!(f, "(c{c}\\{a})"),
        }
    }
}

/// Definitional matcher for one fixed string.
pub struct Matcher {
    w: Vec<Cell>,
    memo: HashMap<(usize, u16, u16), bool>,
    /// remaining work (sub-problems); when it runs out the answer is "unknown"
    budget: u64,
    pub exhausted: bool,
}

pub const MATCH_BUDGET: u64 = 400_000;

impl Matcher {
    pub fn new(w: &[Cell]) -> Matcher {
        Matcher {
            w: w.to_vec(),
            memo: HashMap::new(),
            budget: MATCH_BUDGET,
            exhausted: false,
        }
    }

    pub fn matches(&mut self, t: &A) -> bool {
        let n = self.w.len();
        self.m(t, 0, n)
    }

    fn m(&mut self, t: &A, i: usize, j: usize) -> bool {
        let key = (Arc::as_ptr(t) as usize, i as u16, j as u16);
        if let Some(&r) = self.memo.get(&key) {
            return r;
        }
        if self.budget == 0 {
            self.exhausted = true;
            return false;
        }
        self.budget -= 1;
        let r = self.compute(t, i, j);
        self.memo.insert(key, r);
        r
    }

    fn compute(&mut self, t: &A, i: usize, j: usize) -> bool {
        match &**t {
            Ast::Empty => false,
            Ast::Eps => i == j,
            Ast::Cells(lo, hi) => j == i + 1 && *lo <= self.w[i] && self.w[i] <= *hi,
            Ast::Concat(a, b) => {
                for m in i..=j {
                    if self.exhausted {
                        return false;
                    }
                    if self.m(a, i, m) && self.m(b, m, j) {
                        return true;
                    }
                }
                false
            }
            Ast::Compl(a) => !self.m(a, i, j),
            Ast::Union(v) => {
                for x in v {
                    if self.m(x, i, j) {
                        return true;
                    }
                }
                false
            }
            Ast::Inter(v) => {
                for x in v {
                    if !self.m(x, i, j) {
                        return false;
                    }
                }
                true
            }
            Ast::Quot(a, c) => {
                let mut s = Vec::with_capacity(j - i + 1);
                s.push(*c);
                s.extend_from_slice(&self.w[i..j]);
                let mut sub = Matcher::new(&s);
                sub.budget = self.budget;
                let r = sub.matches(a);
                self.budget = sub.budget;
                if sub.exhausted {
                    self.exhausted = true;
                }
                r
            }
            Ast::Loop(e, lo, hi) => {
                let len = j - i;
                let lo = *lo as u64;
                let hi = hi.map(|h| h as u64);
                if let Some(h) = hi {
                    if h < lo {
                        return false;
                    }
                }
                // n = 0 contributes exactly the empty string
                if lo == 0 && len == 0 {
                    return true;
                }
                // cur[p-i] <=> w[i..p] in L(e)^n
                let mut cur = vec![false; len + 1];
                cur[0] = true;
                let direct_max = match hi {
                    Some(h) => h.min(len as u64),
                    None => len as u64,
                };
                let mut n = 1u64;
                while n <= direct_max {
                    let mut next = vec![false; len + 1];
                    for p in 0..=len {
                        if self.budget < len as u64 {
                            self.budget = 0;
                            self.exhausted = true;
                            return false;
                        }
                        self.budget -= p as u64 / 8 + 1;
                        for q in 0..=p {
                            if cur[q] && self.m(e, i + q, i + p) {
                                next[p] = true;
                                break;
                            }
                        }
                    }
                    if n >= lo && next[len] {
                        return true;
                    }
                    cur = next;
                    n += 1;
                }
                // iteration counts above the length of the string: at least one factor is empty,
                // so eps must be in L(e), and then L^n is monotone in n: w in L^n iff w in L^len.
                let more = match hi {
                    Some(h) => h > len as u64,
                    None => true,
                };
                if more && direct_max == len as u64 {
                    let e_null = self.m(e, i, i);
                    return e_null && cur[len];
                }
                false
            }
        }
    }
}

/// Some(answer), or None if the work budget ran out (long strings under nested operators)
pub fn rmatch(t: &A, w: &[Cell]) -> Option<bool> {
    let mut m = Matcher::new(w);
    let r = m.matches(t);
    if m.exhausted {
        None
    } else {
        Some(r)
    }
}

pub const COST_CAP: u64 = 3_000;

/// rough work estimate (see model::TermInfo::cost), memoised by node address
pub fn cost(t: &A, memo: &mut HashMap<usize, u64>) -> u64 {
    let key = Arc::as_ptr(t) as usize;
    if let Some(&c) = memo.get(&key) {
        return c;
    }
    let c = match &**t {
        Ast::Empty | Ast::Eps | Ast::Cells(..) => 1,
        Ast::Concat(a, b) => cost(a, memo).saturating_add(cost(b, memo)),
        Ast::Loop(e, lo, hi) => cost(e, memo)
            .saturating_mul(hi.unwrap_or(*lo).max(*lo).max(1) as u64)
            .saturating_add(1),
        Ast::Compl(a) | Ast::Quot(a, _) => cost(a, memo).saturating_add(1),
        Ast::Union(v) | Ast::Inter(v) => v
            .iter()
            .fold(1u64, |acc, x| acc.saturating_add(cost(x, memo))),
    };
    memo.insert(key, c);
    c
}

/// R-dfa of an Ast (memoised by node address by the caller if wanted). None = over the caps.
pub fn to_dfa(t: &A, k: usize, memo: &mut HashMap<usize, Option<Arc<Dfa>>>) -> Option<Arc<Dfa>> {
    let key = Arc::as_ptr(t) as usize;
    if let Some(r) = memo.get(&key) {
        return r.clone();
    }
    {
        let mut cm: HashMap<usize, u64> = HashMap::new();
        if cost(t, &mut cm) > COST_CAP {
            memo.insert(key, None);
            return None;
        }
    }
    let r: Option<Dfa> = (|| match &**t {
        Ast::Empty => Some(Dfa::empty(k)),
        Ast::Eps => Some(Dfa::eps(k)),
        Ast::Cells(lo, hi) => Some(Dfa::cells(k, *lo as usize, *hi as usize)),
        Ast::Concat(a, b) => {
            let da = to_dfa(a, k, memo)?;
            let db = to_dfa(b, k, memo)?;
            da.concat(&db)
        }
        Ast::Loop(e, lo, hi) => {
            let de = to_dfa(e, k, memo)?;
            de.repeat(*lo, *hi)
        }
        Ast::Compl(a) => Some(to_dfa(a, k, memo)?.complement()),
        Ast::Union(v) => {
            let mut r = Dfa::empty(k);
            for x in v {
                let dx = to_dfa(x, k, memo)?;
                r = r.union(&dx)?;
            }
            Some(r)
        }
        Ast::Inter(v) => {
            let mut r = Dfa::full(k);
            for x in v {
                let dx = to_dfa(x, k, memo)?;
                r = r.inter(&dx)?;
            }
            Some(r)
        }
        Ast::Quot(a, c) => Some(to_dfa(a, k, memo)?.quotient(*c as usize)),
    })();
    let r = r.map(Arc::new);
    memo.insert(key, r.clone());
    r
}

#[cfg(test)]
mod tests {
    use super::*;

    #[test]
    fn loops() {
        let a = cells(0, 0);
        let l = looped(&a, 2, Some(3));
        assert!(!rmatch(&l, &[0]).unwrap().unwrap());
        assert!(rmatch(&l, &[0, 0]).unwrap());
        assert!(rmatch(&l, &[0, 0, 0]).unwrap());
        assert!(!rmatch(&l, &[0, 0, 0, 0]).unwrap());
        let big = looped(&a, 4_000_000_000, None);
        assert!(!rmatch(&big, &[0, 0, 0]).unwrap());
        let o = looped(&a, 0, Some(1));
        let bigo = looped(&o, 4_000_000_000, Some(4_000_000_001));
        assert!(rmatch(&bigo, &[0, 0, 0]).unwrap());
        assert!(rmatch(&bigo, &[]).unwrap());
        assert!(!rmatch(&bigo, &[1]).unwrap());
        let e = empty();
        assert!(rmatch(&looped(&e, 0, None), &[]).unwrap());
        assert!(!rmatch(&looped(&e, 1, None), &[]).unwrap());
        assert!(rmatch(&looped(&eps(), 5, Some(9)), &[]).unwrap());
        let q = quot(&concat(&a, &cells(1, 1)), 0);
        assert!(rmatch(&q, &[1]).unwrap());
        assert!(!rmatch(&q, &[0]).unwrap());
    }

    #[test]
    fn cross_check() {
        // R-dfa and R-match agree on all strings up to length 5 for a few shapes
        let k = 3usize;
        let a = cells(0, 0);
        let b = cells(1, 2);
        let shapes = vec![
            union(vec![concat(&a, &b), looped(&b, 1, Some(2))]),
            compl(&concat(&looped(&a, 0, None), &b)),
            inter(vec![looped(&union(vec![a.clone(), b.clone()]), 2, Some(4)), compl(&concat(&a, &a))]),
            looped(&looped(&a, 0, Some(1)), 3, Some(5)),
            quot(&looped(&concat(&a, &b), 0, None), 0),
        ];
        for t in &shapes {
            let mut memo = HashMap::new();
            let d = to_dfa(t, k, &mut memo).unwrap();
            let mut w = vec![];
            fn rec(t: &A, d: &Dfa, w: &mut Vec<Cell>, k: usize) {
                assert_eq!(rmatch(t, w).unwrap(), d.accepts(w), "{} on {:?}", t, w);
                if w.len() < 5 {
                    for c in 0..k {
                        w.push(c as Cell);
                        rec(t, d, w, k);
                        w.pop();
                    }
                }
            }
            rec(t, &d, &mut w, k);
        }
    }
}
