//! The seam between the simulator and the crate under test: managers (the thread-local one behind
//! the SMT-LIB wrappers, and explicit ReManager instances), resolved API calls, panic capture.

use std::panic::{catch_unwind, AssertUnwindSafe};

use aws_smt_strings::character_sets::{CharSet, ClassId};
use aws_smt_strings::errors::Error;
use aws_smt_strings::loop_ranges::LoopRange;
use aws_smt_strings::regular_expressions::{ReManager, RegLan};
use aws_smt_strings::smt_regular_expressions as smt;
use aws_smt_strings::smt_strings::SmtString;

use crate::trace::OpKind;

pub struct Mgr {
    pub global: bool,
    pub local: Option<Box<ReManager>>,
}

impl Mgr {
    pub fn new(global: bool) -> Mgr {
        Mgr {
            global,
            local: if global {
                None
            } else {
                Some(Box::new(ReManager::new()))
            },
        }
    }

    /// direct access to the manager (for the thread-local one: through the guarded hook)
    pub fn with<R>(&mut self, f: impl FnOnce(&mut ReManager) -> R) -> R {
        if self.global {
            smt::verif_with_manager(f)
        } else {
            f(self.local.as_mut().unwrap())
        }
    }

    pub fn stats(&mut self) -> (usize, usize, usize) {
        self.with(|m| m.verif_stats())
    }
}

/// Run f, turning a panic into Err(message). The panic hook is silenced globally by main.
pub static IN_LIBRARY: std::sync::atomic::AtomicU64 = std::sync::atomic::AtomicU64::new(0);

pub fn guarded<R>(f: impl FnOnce() -> R) -> Result<R, String> {
    IN_LIBRARY.store(1, std::sync::atomic::Ordering::Relaxed);
    let r = catch_unwind(AssertUnwindSafe(f));
    IN_LIBRARY.store(0, std::sync::atomic::Ordering::Relaxed);
    match r {
        Ok(r) => Ok(r),
        Err(p) => {
            let msg = if let Some(s) = p.downcast_ref::<&str>() {
                s.to_string()
            } else if let Some(s) = p.downcast_ref::<String>() {
                s.clone()
            } else {
                "panic (non-string payload)".to_string()
            };
            Err(msg)
        }
    }
}

pub fn smt_str(v: &[u32]) -> SmtString {
    if v.iter().all(|&x| x <= 0x2FFFF) {
        SmtString::from(v.to_vec())
    } else {
        // ill-formed strings can only be produced through the crate's unchecked From<&str>
        // (code points U+30000.. are legal Rust chars); this is the real path, not a stub
        let text: String = v
            .iter()
            .map(|&x| char::from_u32(x).unwrap_or('a'))
            .collect();
        SmtString::from(text.as_str())
    }
}

/// A fully resolved constructor / derivative call: operands are terms and code points.
#[derive(Clone, Debug)]
pub struct Call {
    pub op: OpKind,
    pub hs: Vec<RegLan>,
    pub n1: u32,
    pub n2: u32,
    pub s: Vec<u32>,
    pub t: Vec<u32>,
    pub cid: Option<ClassId>,
}

#[derive(Debug)]
pub enum Ret {
    Re(RegLan),
    Err(Error),
}

pub fn do_call(m: &mut Mgr, c: &Call) -> Ret {
    use OpKind::*;
    let h = |i: usize| c.hs[i];
    if m.global {
        let r = match c.op {
            ReNone => smt::re_none(),
            All => smt::re_all(),
            AllChar => smt::re_allchar(),
            Eps => smt::str_to_re(&smt_str(&[])),
            Char => smt::str_to_re(&smt_str(&[c.n1])),
            Range => smt::re_range(&smt_str(&[c.n1]), &smt_str(&[c.n2])),
            SmtRange => smt::re_range(&smt_str(&c.s), &smt_str(&c.t)),
            Str => smt::str_to_re(&smt_str(&c.s)),
            Concat => smt::re_concat(h(0), h(1)),
            ConcatList => smt::re_concat_list(c.hs.iter().copied()),
            Union => smt::re_union(h(0), h(1)),
            UnionList => smt::re_union_list(c.hs.iter().copied()),
            Inter => smt::re_inter(h(0), h(1)),
            InterList => smt::re_inter_list(c.hs.iter().copied()),
            Compl => smt::re_comp(h(0)),
            Diff => smt::re_diff(h(0), h(1)),
            DiffList => smt::re_diff_list(h(0), c.hs[1..].iter().copied()),
            Star => smt::re_star(h(0)),
            Plus => smt::re_plus(h(0)),
            Opt => smt::re_opt(h(0)),
            Exp => smt::re_power(h(0), c.n1),
            Loop => smt::re_loop(h(0), c.n1, c.n2),
            _ => return do_direct(m, c),
        };
        Ret::Re(r)
    } else {
        do_direct(m, c)
    }
}

/// the same call through ReManager methods
fn do_direct(m: &mut Mgr, c: &Call) -> Ret {
    use OpKind::*;
    let h = |i: usize| c.hs[i];
    m.with(|re| {
        let r = match c.op {
            ReNone => re.empty(),
            All => re.full(),
            AllChar => re.all_chars(),
            Eps => re.epsilon(),
            Char => re.char(c.n1),
            Range => {
                if (c.n1 + c.n2) % 2 == 0 {
                    re.range(c.n1, c.n2)
                } else {
                    re.char_set(CharSet::range(c.n1, c.n2))
                }
            }
            SmtRange => re.smt_range(&smt_str(&c.s), &smt_str(&c.t)),
            Str => re.str(&smt_str(&c.s)),
            Concat => re.concat(h(0), h(1)),
            ConcatList => re.concat_list(c.hs.iter().copied()),
            Union => re.union(h(0), h(1)),
            UnionList => re.union_list(c.hs.iter().copied()),
            Inter => re.inter(h(0), h(1)),
            InterList => re.inter_list(c.hs.iter().copied()),
            Compl => re.complement(h(0)),
            Diff => re.diff(h(0), h(1)),
            DiffList => re.diff_list(h(0), c.hs[1..].iter().copied()),
            Star => re.star(h(0)),
            Plus => re.plus(h(0)),
            Opt => re.opt(h(0)),
            Exp => re.exp(h(0), c.n1),
            Loop => {
                if c.n1 <= c.n2 && c.n2 % 2 == 1 {
                    re.mk_loop(h(0), LoopRange::finite(c.n1, c.n2))
                } else {
                    re.smt_loop(h(0), c.n1, c.n2)
                }
            }
            LoopInf => re.mk_loop(h(0), LoopRange::infinite(c.n1)),
            CharDeriv => re.char_derivative(h(0), c.n1),
            StrDeriv => re.str_derivative(h(0), &smt_str(&c.s)),
            ClassDeriv => match re.class_derivative(h(0), c.cid.unwrap()) {
                Ok(r) => r,
                Err(e) => return Ret::Err(e),
            },
            ClassDerivUnchecked => re.class_derivative_unchecked(h(0), c.cid.unwrap()),
            SetDeriv => match re.set_derivative(h(0), &CharSet::range(c.n1, c.n2)) {
                Ok(r) => r,
                Err(e) => return Ret::Err(e),
            },
            SetDerivUnchecked => re.set_derivative_unchecked(h(0), &CharSet::range(c.n1, c.n2)),
            _ => unreachable!("not a constructor or derivative call: {:?}", c.op),
        };
        Ret::Re(r)
    })
}
