//! Reference model "R-dfa": regular languages as complete, minimal, canonically numbered DFAs
//! over the cells of a run's alphabet abstraction. Textbook constructions only (product, subset
//! construction, Moore refinement). Shares no code and no technique (derivatives, hash-consing)
//! with the crate under test.

use std::collections::HashMap;
use std::collections::VecDeque;

use crate::rng::{DetHasher, Rng};

/// index of an alphabet cell (a letter of the reference model)
pub type Cell = u16;

pub const RAW_CAP: usize = 30_000;

thread_local! {
    /// work budget (in transitions built) shared by all constructions of one simulation step; when
    /// it is used up the constructions return None and the term is opaque for R-dfa
    static BUDGET: std::cell::Cell<u64> = const { std::cell::Cell::new(u64::MAX) };
}

pub fn set_budget(n: u64) {
    BUDGET.with(|b| b.set(n));
}

fn spend(n: usize) -> bool {
    BUDGET.with(|b| {
        let cur = b.get();
        if cur < n as u64 {
            b.set(0);
            false
        } else {
            b.set(cur - n as u64);
            true
        }
    })
}
pub const MIN_CAP: usize = 2_000;
/// loop counters above this make a term opaque for R-dfa (R-match still applies)
pub const LOOP_CAP: u32 = 400;

/// Complete DFA over letters 0..k. Initial state is 0. Canonical form: minimal, all states
/// reachable, states numbered in BFS order (letters ascending). Two canonical DFAs over the
/// same k are equal iff their languages are equal.
#[derive(Clone, PartialEq, Eq, Debug)]
pub struct Dfa {
    pub k: usize,
    pub trans: Vec<u32>,
    pub fin: Vec<bool>,
}

impl Dfa {
    pub fn n(&self) -> usize {
        self.fin.len()
    }

    #[inline]
    pub fn step(&self, q: u32, c: usize) -> u32 {
        self.trans[q as usize * self.k + c]
    }

    pub fn run(&self, w: &[Cell]) -> u32 {
        let mut q = 0u32;
        for &c in w {
            q = self.step(q, c as usize);
        }
        q
    }

    pub fn run_from(&self, mut q: u32, w: &[Cell]) -> u32 {
        for &c in w {
            q = self.step(q, c as usize);
        }
        q
    }

    pub fn accepts(&self, w: &[Cell]) -> bool {
        self.fin[self.run(w) as usize]
    }

    pub fn is_empty_lang(&self) -> bool {
        self.n() == 1 && !self.fin[0]
    }

    pub fn is_full_lang(&self) -> bool {
        self.n() == 1 && self.fin[0]
    }

    pub fn nullable(&self) -> bool {
        self.fin[0]
    }

    pub fn fingerprint(&self) -> u64 {
        let mut h = DetHasher::new();
        h.write_u64(self.k as u64);
        h.write_u64(self.n() as u64);
        for &t in &self.trans {
            h.write_u64(t as u64);
        }
        for &f in &self.fin {
            h.write_u64(f as u64);
        }
        h.finish()
    }

    // ---- basic languages -------------------------------------------------------------

    pub fn empty(k: usize) -> Dfa {
        Dfa {
            k,
            trans: vec![0; k],
            fin: vec![false],
        }
    }

    pub fn full(k: usize) -> Dfa {
        Dfa {
            k,
            trans: vec![0; k],
            fin: vec![true],
        }
    }

    pub fn eps(k: usize) -> Dfa {
        // 0 = initial/final, 1 = sink
        let mut trans = vec![1u32; 2 * k];
        for c in 0..k {
            trans[c] = 1;
        }
        canon(Dfa {
            k,
            trans,
            fin: vec![true, false],
        })
    }

    /// one-letter strings whose letter is a cell in lo..=hi
    pub fn cells(k: usize, lo: usize, hi: usize) -> Dfa {
        // 0 initial, 1 accept, 2 sink
        let mut trans = vec![2u32; 3 * k];
        for c in lo..=hi.min(k - 1) {
            trans[c] = 1;
        }
        canon(Dfa {
            k,
            trans,
            fin: vec![false, true, false],
        })
    }

    // ---- boolean operations ----------------------------------------------------------

    pub fn complement(&self) -> Dfa {
        // flipping finals of a canonical DFA keeps it canonical
        Dfa {
            k: self.k,
            trans: self.trans.clone(),
            fin: self.fin.iter().map(|&b| !b).collect(),
        }
    }

    pub fn product(&self, other: &Dfa, op: fn(bool, bool) -> bool) -> Option<Dfa> {
        assert_eq!(self.k, other.k);
        let k = self.k;
        let nb = other.n() as u64;
        let mut ids: HashMap<u64, u32> = HashMap::new();
        let mut order: Vec<(u32, u32)> = Vec::new();
        let mut trans: Vec<u32> = Vec::new();
        ids.insert(0, 0);
        order.push((0, 0));
        let mut i = 0;
        while i < order.len() {
            let (a, b) = order[i];
            if !spend(k) {
                return None;
            }
            for c in 0..k {
                let a2 = self.step(a, c);
                let b2 = other.step(b, c);
                let key = a2 as u64 * nb + b2 as u64;
                let next = order.len() as u32;
                let id = *ids.entry(key).or_insert(next);
                if id == next {
                    order.push((a2, b2));
                    if order.len() > raw_cap(k) {
                        return None;
                    }
                }
                trans.push(id);
            }
            i += 1;
        }
        let fin = order
            .iter()
            .map(|&(a, b)| op(self.fin[a as usize], other.fin[b as usize]))
            .collect();
        capped(canon(Dfa { k, trans, fin }))
    }

    pub fn union(&self, other: &Dfa) -> Option<Dfa> {
        self.product(other, |a, b| a || b)
    }

    pub fn inter(&self, other: &Dfa) -> Option<Dfa> {
        self.product(other, |a, b| a && b)
    }

    // ---- concatenation, star, loops --------------------------------------------------

    /// L(self) . L(other) by subset construction on states (a, set of b-states)
    pub fn concat(&self, other: &Dfa) -> Option<Dfa> {
        assert_eq!(self.k, other.k);
        let k = self.k;
        // a state is (qa, sorted set of qb)
        let mut ids: HashMap<(u32, Vec<u32>), u32> = HashMap::new();
        let mut order: Vec<(u32, Vec<u32>)> = Vec::new();
        let mut trans: Vec<u32> = Vec::new();
        let start_set = if self.fin[0] { vec![0u32] } else { vec![] };
        ids.insert((0, start_set.clone()), 0);
        order.push((0, start_set));
        let mut i = 0;
        while i < order.len() {
            let (a, set) = order[i].clone();
            if !spend(k * (set.len() + 1)) {
                return None;
            }
            for c in 0..k {
                let a2 = self.step(a, c);
                let mut s2: Vec<u32> = set.iter().map(|&b| other.step(b, c)).collect();
                if self.fin[a2 as usize] {
                    s2.push(0);
                }
                s2.sort_unstable();
                s2.dedup();
                let key = (a2, s2);
                let next = order.len() as u32;
                let id = match ids.get(&key) {
                    Some(&id) => id,
                    None => {
                        ids.insert(key.clone(), next);
                        order.push(key);
                        if order.len() > raw_cap(k) {
                            return None;
                        }
                        next
                    }
                };
                trans.push(id);
            }
            i += 1;
        }
        let fin = order
            .iter()
            .map(|(_, set)| set.iter().any(|&b| other.fin[b as usize]))
            .collect();
        capped(canon(Dfa { k, trans, fin }))
    }

    /// L+ : subset construction where reaching a final state also re-enters the initial state
    pub fn plus(&self) -> Option<Dfa> {
        let k = self.k;
        let mut ids: HashMap<Vec<u32>, u32> = HashMap::new();
        let mut order: Vec<Vec<u32>> = Vec::new();
        let mut trans: Vec<u32> = Vec::new();
        let start = vec![0u32];
        ids.insert(start.clone(), 0);
        order.push(start);
        let mut i = 0;
        while i < order.len() {
            let set = order[i].clone();
            if !spend(k * (set.len() + 1)) {
                return None;
            }
            for c in 0..k {
                let mut s2: Vec<u32> = set.iter().map(|&q| self.step(q, c)).collect();
                if s2.iter().any(|&q| self.fin[q as usize]) {
                    s2.push(0);
                }
                s2.sort_unstable();
                s2.dedup();
                let next = order.len() as u32;
                let id = match ids.get(&s2) {
                    Some(&id) => id,
                    None => {
                        ids.insert(s2.clone(), next);
                        order.push(s2);
                        if order.len() > raw_cap(k) {
                            return None;
                        }
                        next
                    }
                };
                trans.push(id);
            }
            i += 1;
        }
        let fin = order
            .iter()
            .map(|set| set.iter().any(|&q| self.fin[q as usize]))
            .collect();
        capped(canon(Dfa { k, trans, fin }))
    }

    pub fn star(&self) -> Option<Dfa> {
        self.plus()?.union(&Dfa::eps(self.k))
    }

    pub fn opt(&self) -> Option<Dfa> {
        self.union(&Dfa::eps(self.k))
    }

    /// L^n (n-fold concatenation, L^0 = {eps}), by repeated squaring: O(log n) concatenations
    /// (each one is followed by a minimisation whose cost grows with the size of the result)
    pub fn power(&self, n: u32) -> Option<Dfa> {
        if n > LOOP_CAP {
            return None;
        }
        let mut result = Dfa::eps(self.k);
        let mut base = self.clone();
        let mut e = n;
        let mut first = true;
        while e > 0 {
            if e & 1 == 1 {
                result = if first { base.clone() } else { result.concat(&base)? };
                first = false;
            }
            e >>= 1;
            if e > 0 {
                base = base.concat(&base)?;
            }
        }
        Some(result)
    }

    /// union of L^n for lo <= n <= hi (hi = None: unbounded)
    pub fn repeat(&self, lo: u32, hi: Option<u32>) -> Option<Dfa> {
        let head = self.power(lo)?;
        match hi {
            None => head.concat(&self.star()?),
            Some(hi) => {
                if hi < lo {
                    return Some(Dfa::empty(self.k));
                }
                let m = hi - lo;
                if m > LOOP_CAP {
                    return None;
                }
                // (L + eps)^m
                let tail = self.opt()?.power(m)?;
                head.concat(&tail)
            }
        }
    }

    /// left quotient by one letter: { w | c.w in L }
    pub fn quotient(&self, c: usize) -> Dfa {
        self.rooted_at(self.step(0, c))
    }

    /// the language accepted from state q, in canonical form
    pub fn rooted_at(&self, q: u32) -> Dfa {
        // renumber so that q becomes 0, then canonicalise (trim + BFS order). The states of a
        // minimal DFA are pairwise inequivalent, so trimming is enough; canon() re-minimises anyway.
        let n = self.n();
        let k = self.k;
        let map = |x: u32| -> u32 {
            if x == q {
                0
            } else if x == 0 {
                q
            } else {
                x
            }
        };
        let mut trans = vec![0u32; n * k];
        let mut fin = vec![false; n];
        for s in 0..n as u32 {
            let s2 = map(s) as usize;
            fin[s2] = self.fin[s as usize];
            for c in 0..k {
                trans[s2 * k + c] = map(self.step(s, c));
            }
        }
        canon(Dfa { k, trans, fin })
    }

    // ---- decision procedures with witnesses -------------------------------------------

    /// shortest accepted string
    pub fn shortest_accepted(&self) -> Option<Vec<Cell>> {
        self.shortest_to(|q| self.fin[q as usize])
    }

    pub fn shortest_rejected(&self) -> Option<Vec<Cell>> {
        self.shortest_to(|q| !self.fin[q as usize])
    }

    fn shortest_to(&self, goal: impl Fn(u32) -> bool) -> Option<Vec<Cell>> {
        let n = self.n();
        let mut pred: Vec<Option<(u32, Cell)>> = vec![None; n];
        let mut seen = vec![false; n];
        let mut queue = VecDeque::new();
        seen[0] = true;
        queue.push_back(0u32);
        while let Some(q) = queue.pop_front() {
            if goal(q) {
                let mut w = Vec::new();
                let mut x = q;
                while let Some((p, c)) = pred[x as usize] {
                    w.push(c);
                    x = p;
                }
                w.reverse();
                return Some(w);
            }
            for c in 0..self.k {
                let r = self.step(q, c);
                if !seen[r as usize] {
                    seen[r as usize] = true;
                    pred[r as usize] = Some((q, c as Cell));
                    queue.push_back(r);
                }
            }
        }
        None
    }

    /// shortest string on which the two languages differ (None: equal)
    pub fn shortest_diff(&self, other: &Dfa) -> Option<Vec<Cell>> {
        self.product_search(other, |a, b| a != b)
    }

    /// shortest string in self but not in other (None: self is a subset of other)
    pub fn shortest_not_subset(&self, other: &Dfa) -> Option<Vec<Cell>> {
        self.product_search(other, |a, b| a && !b)
    }

    fn product_search(&self, other: &Dfa, bad: fn(bool, bool) -> bool) -> Option<Vec<Cell>> {
        assert_eq!(self.k, other.k);
        let nb = other.n() as u64;
        let mut pred: HashMap<u64, (u64, Cell)> = HashMap::new();
        let mut queue = VecDeque::new();
        pred.insert(0, (u64::MAX, 0));
        queue.push_back((0u32, 0u32));
        while let Some((a, b)) = queue.pop_front() {
            if bad(self.fin[a as usize], other.fin[b as usize]) {
                let mut w = Vec::new();
                let mut key = a as u64 * nb + b as u64;
                loop {
                    let (p, c) = pred[&key];
                    if p == u64::MAX {
                        break;
                    }
                    w.push(c);
                    key = p;
                }
                w.reverse();
                return Some(w);
            }
            let key = a as u64 * nb + b as u64;
            for c in 0..self.k {
                let a2 = self.step(a, c);
                let b2 = other.step(b, c);
                let k2 = a2 as u64 * nb + b2 as u64;
                if let std::collections::hash_map::Entry::Vacant(e) = pred.entry(k2) {
                    e.insert((key, c as Cell));
                    queue.push_back((a2, b2));
                }
            }
        }
        None
    }

    /// distance (number of letters) from each state to the nearest state satisfying goal;
    /// u32::MAX if unreachable
    pub fn dist_to(&self, goal: impl Fn(u32) -> bool) -> Vec<u32> {
        let n = self.n();
        let k = self.k;
        // reverse edges
        let mut rev: Vec<Vec<u32>> = vec![Vec::new(); n];
        for q in 0..n as u32 {
            for c in 0..k {
                rev[self.step(q, c) as usize].push(q);
            }
        }
        let mut dist = vec![u32::MAX; n];
        let mut queue = VecDeque::new();
        for q in 0..n as u32 {
            if goal(q) {
                dist[q as usize] = 0;
                queue.push_back(q);
            }
        }
        while let Some(q) = queue.pop_front() {
            let d = dist[q as usize];
            for &p in &rev[q as usize] {
                if dist[p as usize] == u32::MAX {
                    dist[p as usize] = d + 1;
                    queue.push_back(p);
                }
            }
        }
        dist
    }

    /// A string of bounded length steered towards (accept = true) or away from the language:
    /// a random walk that stays where the goal is still reachable, then the shortest way to it.
    pub fn steered(&self, rng: &mut Rng, accept: bool, max_len: usize) -> Option<Vec<Cell>> {
        let dist = self.dist_to(|q| self.fin[q as usize] == accept);
        if dist[0] == u32::MAX {
            return None;
        }
        let mut w: Vec<Cell> = Vec::new();
        let mut q = 0u32;
        let wander = rng.below(max_len as u64 + 1) as usize;
        for _ in 0..wander {
            if w.len() + dist[q as usize] as usize >= max_len {
                break;
            }
            // candidates that keep the goal reachable within the budget
            let mut cands: Vec<usize> = Vec::new();
            for c in 0..self.k {
                let r = self.step(q, c);
                let d = dist[r as usize];
                if d != u32::MAX && w.len() + 1 + d as usize <= max_len {
                    cands.push(c);
                }
            }
            if cands.is_empty() {
                break;
            }
            let c = cands[rng.below(cands.len() as u64) as usize];
            w.push(c as Cell);
            q = self.step(q, c);
        }
        // finish along a shortest path
        while dist[q as usize] > 0 {
            let d = dist[q as usize];
            let mut cands: Vec<usize> = Vec::new();
            for c in 0..self.k {
                if dist[self.step(q, c) as usize] == d - 1 {
                    cands.push(c);
                }
            }
            let c = cands[rng.below(cands.len() as u64) as usize];
            w.push(c as Cell);
            q = self.step(q, c);
        }
        Some(w)
    }

    /// number of states from which some final state is reachable ("live" states)
    pub fn live_states(&self) -> usize {
        self.dist_to(|q| self.fin[q as usize])
            .iter()
            .filter(|&&d| d != u32::MAX)
            .count()
    }
}

/// cap on unminimised states: at most RAW_CAP, and at most ~600 000 transitions
pub fn raw_cap(k: usize) -> usize {
    RAW_CAP.min(600_000 / k.max(1)).max(64)
}

fn capped(d: Dfa) -> Option<Dfa> {
    if d.n() > MIN_CAP {
        None
    } else {
        Some(d)
    }
}

/// Trim unreachable states, minimise (Moore refinement), renumber in BFS order.
pub fn canon(d: Dfa) -> Dfa {
    let k = d.k;
    // 1. reachable part, BFS order
    let n0 = d.n();
    let mut idx = vec![u32::MAX; n0];
    let mut order: Vec<u32> = Vec::new();
    idx[0] = 0;
    order.push(0);
    let mut i = 0;
    while i < order.len() {
        let q = order[i];
        for c in 0..k {
            let r = d.step(q, c);
            if idx[r as usize] == u32::MAX {
                idx[r as usize] = order.len() as u32;
                order.push(r);
            }
        }
        i += 1;
    }
    let n = order.len();
    let mut trans = vec![0u32; n * k];
    let mut fin = vec![false; n];
    for (i, &q) in order.iter().enumerate() {
        fin[i] = d.fin[q as usize];
        for c in 0..k {
            trans[i * k + c] = idx[d.step(q, c) as usize];
        }
    }
    // 2. Moore refinement
    let mut class: Vec<u32> = fin.iter().map(|&b| b as u32).collect();
    let mut nclasses = {
        let has_t = fin.iter().any(|&b| b);
        let has_f = fin.iter().any(|&b| !b);
        if has_t && has_f {
            2
        } else {
            for c in class.iter_mut() {
                *c = 0;
            }
            1
        }
    };
    loop {
        // minimisation is charged to the same work budget (it keeps going when the budget is
        // used up - the result must stay canonical - but later constructions then give up)
        let _ = spend(n * k / 4 + 1);
        let mut sig_ids: HashMap<Vec<u32>, u32> = HashMap::new();
        let mut new_class = vec![0u32; n];
        let mut sig = Vec::with_capacity(k + 1);
        for q in 0..n {
            sig.clear();
            sig.push(class[q]);
            for c in 0..k {
                sig.push(class[trans[q * k + c] as usize]);
            }
            let next = sig_ids.len() as u32;
            let id = match sig_ids.get(&sig) {
                Some(&id) => id,
                None => {
                    sig_ids.insert(sig.clone(), next);
                    next
                }
            };
            new_class[q] = id;
        }
        let m = sig_ids.len();
        class = new_class;
        if m == nclasses {
            break;
        }
        nclasses = m;
    }
    // 3. quotient automaton, renumbered in BFS order from the class of state 0
    let mut rep = vec![u32::MAX; nclasses];
    for q in 0..n {
        let c = class[q] as usize;
        if rep[c] == u32::MAX {
            rep[c] = q as u32;
        }
    }
    let mut cidx = vec![u32::MAX; nclasses];
    let mut corder: Vec<u32> = Vec::new();
    cidx[class[0] as usize] = 0;
    corder.push(class[0]);
    let mut i = 0;
    while i < corder.len() {
        let cl = corder[i];
        let q = rep[cl as usize] as usize;
        for c in 0..k {
            let r = class[trans[q * k + c] as usize];
            if cidx[r as usize] == u32::MAX {
                cidx[r as usize] = corder.len() as u32;
                corder.push(r);
            }
        }
        i += 1;
    }
    let m = corder.len();
    let mut t2 = vec![0u32; m * k];
    let mut f2 = vec![false; m];
    for (i, &cl) in corder.iter().enumerate() {
        let q = rep[cl as usize] as usize;
        f2[i] = fin[q];
        for c in 0..k {
            t2[i * k + c] = cidx[class[trans[q * k + c] as usize] as usize];
        }
    }
    Dfa {
        k,
        trans: t2,
        fin: f2,
    }
}

#[cfg(test)]
mod tests {
    use super::*;

    #[test]
    fn basics() {
        let k = 3;
        let a = Dfa::cells(k, 0, 0);
        let b = Dfa::cells(k, 1, 1);
        let ab = a.concat(&b).unwrap();
        assert!(ab.accepts(&[0, 1]));
        assert!(!ab.accepts(&[0]));
        assert!(!ab.accepts(&[0, 1, 1]));
        let s = ab.star().unwrap();
        assert!(s.accepts(&[]));
        assert!(s.accepts(&[0, 1, 0, 1]));
        assert!(!s.accepts(&[0, 1, 0]));
        let e = Dfa::empty(k);
        assert!(e.star().unwrap() == Dfa::eps(k));
        assert!(e.repeat(0, Some(3)).unwrap() == Dfa::eps(k));
        assert!(e.repeat(1, Some(3)).unwrap().is_empty_lang());
        let r = a.repeat(2, Some(4)).unwrap();
        assert!(!r.accepts(&[0]));
        assert!(r.accepts(&[0, 0]));
        assert!(r.accepts(&[0, 0, 0, 0]));
        assert!(!r.accepts(&[0, 0, 0, 0, 0]));
        let q = ab.quotient(0);
        assert!(q == b);
        assert!(ab.quotient(1).is_empty_lang());
        let u = a.union(&b).unwrap();
        assert!(u == Dfa::cells(k, 0, 1));
        assert!(u.complement().complement() == u);
        assert!(a.shortest_not_subset(&u).is_none());
        assert_eq!(u.shortest_not_subset(&a), Some(vec![1]));
        let inf = a.repeat(2, None).unwrap();
        assert!(inf.accepts(&[0, 0, 0, 0, 0, 0]));
        assert!(!inf.accepts(&[0]));
    }
}
