//! Batch driver: forks worker processes (terms are leaked by design, so processes are recycled),
//! aggregates their counters, handles known findings, writes the evidence file, prints
//! VIOLATION / KNOWN-FINDING lines. Exit codes: 0 clean, 1 violation, 2 harness error.

use std::collections::{BTreeMap, HashSet};
use std::io::{BufRead, BufReader, Read, Write};
use std::path::{Path, PathBuf};
use std::process::{Command, Stdio};
use std::sync::atomic::{AtomicBool, AtomicU64, Ordering};
use std::sync::Mutex;
use std::time::Instant;

use crate::gen::{self, Prop};
use crate::json::{obj, s, J};
use crate::rng::mix;
use crate::runner::{check_trace, one_line, Replay};
use crate::shrink::minimise;

pub const DEFAULT_SEED: u64 = 20260926;

pub fn root() -> PathBuf {
    PathBuf::from(std::env::var("SMTSIM_ROOT").unwrap_or_else(|_| "/verif".to_string()))
}

pub fn run_seed(base: u64, prop: Prop, idx: u64) -> u64 {
    mix(base ^ ((prop as u64 + 1) << 48), idx)
}

// ------------------------------------------------------------------------------------------
// known findings
// ------------------------------------------------------------------------------------------

#[derive(Clone, Debug)]
pub struct Known {
    pub prop: String,
    pub rule: String,
    pub contains: String,
    pub line: String,
}

pub fn load_known() -> Vec<Known> {
    let mut v = Vec::new();
    let p = root().join("known_findings.txt");
    if let Ok(text) = std::fs::read_to_string(p) {
        for line in text.lines() {
            let line = line.trim();
            if let Some(rest) = line.strip_prefix("finding:") {
                let rest = rest.trim();
                let mut prop = String::new();
                let mut rule = String::new();
                let mut contains = String::new();
                let mut it = rest.splitn(3, ' ');
                for tok in [it.next(), it.next()] {
                    if let Some(t) = tok {
                        if let Some(x) = t.strip_prefix("property=") {
                            prop = x.to_string();
                        } else if let Some(x) = t.strip_prefix("rule=") {
                            rule = x.to_string();
                        }
                    }
                }
                if let Some(t) = it.next() {
                    if let Some(x) = t.trim().strip_prefix("contains=") {
                        contains = x.to_string();
                    }
                }
                if !prop.is_empty() && !rule.is_empty() && !contains.is_empty() {
                    v.push(Known {
                        prop,
                        rule,
                        contains,
                        line: rest.to_string(),
                    });
                }
            }
        }
    }
    v
}

pub fn known_match<'a>(known: &'a [Known], prop: &str, rule: &str, detail: &str) -> Option<&'a Known> {
    known
        .iter()
        .find(|k| k.prop == prop && k.rule == rule && detail.contains(&k.contains))
}

// ------------------------------------------------------------------------------------------
// worker
// ------------------------------------------------------------------------------------------

// smtsim worker <prop> <base_seed> <start> <count> <fp_mask> <mode> <outfile>
// mode: "check" | "hash"
extern "C" {
    fn setrlimit(resource: i32, rlim: *const [u64; 2]) -> i32;
}

/// cap the address space of a worker so that a runaway allocation aborts this process (and is
/// reported with its seed) instead of exhausting the machine
pub fn limit_memory(bytes: u64) {
    const RLIMIT_AS: i32 = 9;
    let lim = [bytes, bytes];
    unsafe {
        let _ = setrlimit(RLIMIT_AS, &lim);
    }
}

pub fn cmd_worker(args: &[String]) -> i32 {
    limit_memory(std::env::var("SMTSIM_WORKER_MEM").ok().and_then(|x| x.parse().ok()).unwrap_or(8 << 30));
    let prop = Prop::from_name(&args[0]).expect("prop");
    let base: u64 = args[1].parse().unwrap();
    let start: u64 = args[2].parse().unwrap();
    let count: u64 = args[3].parse().unwrap();
    let fp_mask: u64 = args[4].parse().unwrap();
    let mode = args[5].as_str();
    let outfile = PathBuf::from(&args[6]);
    let known = load_known();
    let stdout = std::io::stdout();
    let mut out = stdout.lock();
    let mut stats: BTreeMap<&'static str, u64> = BTreeMap::new();
    let mut bin: Vec<u8> = Vec::new();
    let mut samples: Vec<String> = Vec::new();
    let mut shrunk = 0;
    let mut rec = |tag: u8, x: u64, bin: &mut Vec<u8>| {
        bin.push(tag);
        bin.extend_from_slice(&x.to_le_bytes());
    };
    let mem_limit_kb: u64 = std::env::var("SMTSIM_WORKER_RETIRE_KB").ok().and_then(|x| x.parse().ok()).unwrap_or(2_500_000);
    let mut retired_at: Option<u64> = None;
    for i in start..start + count {
        // terms are leaked by design (some runs create a million of them): retire when large
        if i > start && resident_kb() > mem_limit_kb {
            retired_at = Some(i);
            break;
        }
        let seed = run_seed(base, prop, i);
        let tr = gen::generate(seed, prop);
        let c = check_trace(&tr, prop.bit(), false);
        for (k, v) in &c.out.stats {
            *stats.entry(k).or_insert(0) += v;
        }
        *stats.entry("runs").or_insert(0) += 1;
        if c.out.stats.keys().all(|k| !k.starts_with("fault.") || *k == "fault.F4_isolated_replicas_on_fresh_thread") {
            *stats.entry("runs_without_injected_fault").or_insert(0) += 1;
        }
        for &f in &c.out.fps {
            if f & fp_mask == 0 {
                rec(1, f, &mut bin);
            }
        }
        rec(2, c.out.order_hash, &mut bin);
        rec(3, c.out.end_state_hash, &mut bin);
        if mode == "hash" {
            let _ = writeln!(out, "HASH\t{}\t{:016x}", i, c.out.log_hash ^ c.out.end_state_hash);
        }
        if samples.len() < 3 {
            for smp in &c.out.samples {
                if samples.len() < 3 && !samples.contains(smp) {
                    samples.push(smp.clone());
                }
            }
        }
        if let Some(h) = &c.out.harness {
            let _ = writeln!(out, "HARNESS\t{}\t{}", seed, one_line(h));
        }
        let hung = c.out.hang.is_some();
        if let Some((step, op, in_lib)) = c.out.hang {
            let _ = writeln!(out, "NOTE\trun seed {} exceeded the watchdog at step {} ({}), inside the crate: {}", seed, step, op, in_lib);
        }
        if let (Some(v), false) = (&c.out.violation, hung) {
            let is_known = known_match(&known, v.prop.name(), v.rule, &v.detail).is_some();
            if is_known {
                let _ = writeln!(
                    out,
                    "KNOWN\t{}\t{}\t{}\t{}",
                    v.prop.name(),
                    v.rule,
                    seed,
                    one_line(&v.detail)
                );
            } else if shrunk < 2 {
                shrunk += 1;
                let sh = minimise_across_processes(&tr, prop, v, 600);
                // a minimised trace may turn out to be a known finding
                let v2 = &sh.violation;
                if known_match(&known, v2.prop.name(), v2.rule, &v2.detail).is_some() {
                    let _ = writeln!(out, "KNOWN\t{}\t{}\t{}\t{}", v2.prop.name(), v2.rule, seed, one_line(&v2.detail));
                } else {
                    let logged = check_trace(&sh.trace, prop.bit(), true);
                    let rp = Replay {
                        prop: v2.prop,
                        rule: v2.rule.to_string(),
                        step: v2.step,
                        detail: v2.detail.clone(),
                        original_steps: tr.steps.len(),
                        trace: sh.trace.clone(),
                        log: logged.out.log.iter().map(|l| l.chars().take(300).collect()).collect(),
                    };
                    let dir = root().join("replays");
                    let _ = std::fs::create_dir_all(&dir);
                    let path = dir.join(format!("{}-{}.replay", v2.prop.name(), seed));
                    let _ = std::fs::write(&path, rp.to_text());
                    let _ = writeln!(
                        out,
                        "VIOL\t{}\t{}\t{}\t{}\t{}\t{}",
                        v2.prop.name(),
                        v2.rule,
                        seed,
                        path.display(),
                        sh.trace.steps.len(),
                        one_line(&v2.detail)
                    );
                }
            } else {
                let _ = writeln!(
                    out,
                    "VIOLMORE\t{}\t{}\t{}\t{}",
                    v.prop.name(),
                    v.rule,
                    seed,
                    one_line(&v.detail)
                );
            }
        }
        if hung {
            // no minimisation (every candidate would wait for the watchdog); the seed is the replay
            if let Some(v) = &c.out.violation {
                let rp = Replay {
                    prop: v.prop,
                    rule: v.rule.to_string(),
                    step: v.step,
                    detail: v.detail.clone(),
                    original_steps: tr.steps.len(),
                    trace: tr.clone(),
                    log: Vec::new(),
                };
                let dir = root().join("replays");
                let _ = std::fs::create_dir_all(&dir);
                let path = dir.join(format!("{}-{}.replay", v.prop.name(), seed));
                let _ = std::fs::write(&path, rp.to_text());
                let _ = writeln!(out, "VIOL\t{}\t{}\t{}\t{}\t{}\t{}", v.prop.name(), v.rule, seed, path.display(), tr.steps.len(), one_line(&v.detail));
            }
            for (k, v) in &stats {
                let _ = writeln!(out, "STAT\t{}\t{}", k, v);
            }
            let _ = std::fs::write(&outfile, &bin);
            let _ = writeln!(out, "DONE\t{}", i - start + 1);
            let _ = out.flush();
            std::process::exit(0);
        }
    }
    for (k, v) in &stats {
        let _ = writeln!(out, "STAT\t{}\t{}", k, v);
    }
    for smp in &samples {
        let _ = writeln!(out, "SAMPLE\t{}", one_line(smp));
    }
    let _ = std::fs::write(&outfile, &bin);
    if let Some(i) = retired_at {
        let _ = writeln!(out, "PARTIAL\t{}", i);
    }
    let _ = writeln!(out, "DONE\t{}", retired_at.map(|i| i - start).unwrap_or(count));
    0
}

use crate::shrink::resident_kb;

/// Minimise; when this process has grown too large, hand the current best trace to a fresh child
/// process (`smtsim shrink <in> <out> <budget>`), which continues (and may hand over again).
pub fn minimise_across_processes(tr: &crate::trace::Trace, prop: Prop, v: &crate::exec::Violation, budget: usize) -> crate::shrink::Shrunk {
    crate::shrink::new_shrink_deadline();
    let mut sh = minimise(tr, prop.bit(), v, budget);
    if sh.mem_stop && sh.budget_left > 0 {
        let tmp = root().join("sim/target/tmp");
        let _ = std::fs::create_dir_all(&tmp);
        let inp = tmp.join(format!("shrink-in-{}-{}.replay", std::process::id(), tr.seed));
        let outp = tmp.join(format!("shrink-out-{}-{}.replay", std::process::id(), tr.seed));
        let rp = Replay {
            prop: sh.violation.prop,
            rule: sh.violation.rule.to_string(),
            step: sh.violation.step,
            detail: sh.violation.detail.clone(),
            original_steps: tr.steps.len(),
            trace: sh.trace.clone(),
            log: Vec::new(),
        };
        if std::fs::write(&inp, rp.to_text()).is_ok() {
            let me = std::env::current_exe().expect("exe");
            let st = Command::new(&me)
                .arg("shrink")
                .arg(&inp)
                .arg(&outp)
                .arg(sh.budget_left.to_string())
                .env("SMTSIM_ROOT", root())
                .stdout(Stdio::null())
                .stderr(Stdio::null())
                .status();
            if matches!(st, Ok(s) if s.success()) {
                if let Ok(text) = std::fs::read_to_string(&outp) {
                    if let Ok(r2) = Replay::from_text(&text) {
                        // the rule name must be one of the 'static names: keep the original
                        sh.trace = r2.trace;
                        sh.violation = crate::exec::Violation {
                            prop: r2.prop,
                            rule: sh.violation.rule,
                            step: r2.step,
                            detail: r2.detail,
                        };
                    }
                }
            }
        }
        let _ = std::fs::remove_file(&inp);
        let _ = std::fs::remove_file(&outp);
    }
    sh
}

/// child side of minimise_across_processes
pub fn cmd_shrink(inp: &str, outp: &str, budget: usize) -> i32 {
    limit_memory(8 << 30);
    let text = match std::fs::read_to_string(inp) {
        Ok(t) => t,
        Err(_) => return 2,
    };
    let rp = match Replay::from_text(&text) {
        Ok(r) => r,
        Err(_) => return 2,
    };
    // re-establish the violation (gives the 'static rule name back)
    let c = check_trace(&rp.trace, rp.prop.bit(), false);
    let v = match c.out.violation {
        Some(v) if v.prop == rp.prop && v.rule == rp.rule => v,
        _ => return 2,
    };
    let sh = minimise(&rp.trace, rp.prop.bit(), &v, budget.saturating_sub(1));
    if sh.mem_stop && sh.budget_left > 1 {
        // this process has grown too large as well: write the current best over the input file
        // and *replace* this process by a fresh one with the same output file (a chain of waiting
        // parents would keep all their memory: 17 of them held 43 GB once)
        let cur = Replay {
            prop: sh.violation.prop,
            rule: sh.violation.rule.to_string(),
            step: sh.violation.step,
            detail: sh.violation.detail.clone(),
            original_steps: rp.original_steps,
            trace: sh.trace.clone(),
            log: Vec::new(),
        };
        if std::fs::write(inp, cur.to_text()).is_ok() {
            use std::os::unix::process::CommandExt;
            let me = std::env::current_exe().expect("exe");
            let err = Command::new(&me)
                .arg("shrink")
                .arg(inp)
                .arg(outp)
                .arg((sh.budget_left - 1).to_string())
                .env("SMTSIM_ROOT", root())
                .exec();
            // exec only returns on failure: fall through and report what we have
            let _ = err;
        }
    }
    let out = Replay {
        prop: sh.violation.prop,
        rule: sh.violation.rule.to_string(),
        step: sh.violation.step,
        detail: sh.violation.detail.clone(),
        original_steps: rp.original_steps,
        trace: sh.trace,
        log: Vec::new(),
    };
    if std::fs::write(outp, out.to_text()).is_ok() {
        0
    } else {
        2
    }
}

// ------------------------------------------------------------------------------------------
// check
// ------------------------------------------------------------------------------------------

#[derive(Default)]
struct Agg {
    stats: BTreeMap<String, u64>,
    samples: Vec<String>,
    viols: Vec<(String, String, String, String, String, String)>, // prop rule seed path steps detail
    violmore: u64,
    known: BTreeMap<String, (u64, String)>,
    harness: Vec<String>,
    fps: HashSet<u64>,
    orders: HashSet<u64>,
    ends: HashSet<u64>,
    hashes: BTreeMap<u64, String>,
    crashed: Vec<(u64, u64, String)>,
    notes: Vec<String>,
}

fn absorb(agg: &mut Agg, text: &str, known: &[Known]) -> bool {
    let mut done = false;
    for line in text.lines() {
        let f: Vec<&str> = line.split('\t').collect();
        match f[0] {
            "STAT" if f.len() == 3 => {
                *agg.stats.entry(f[1].to_string()).or_insert(0) += f[2].parse::<u64>().unwrap_or(0);
            }
            "SAMPLE" if f.len() >= 2 => {
                if agg.samples.len() < 12 {
                    agg.samples.push(f[1..].join(" "));
                }
            }
            "VIOL" if f.len() >= 7 => agg.viols.push((
                f[1].to_string(),
                f[2].to_string(),
                f[3].to_string(),
                f[4].to_string(),
                f[5].to_string(),
                f[6..].join(" "),
            )),
            "VIOLMORE" => agg.violmore += 1,
            "KNOWN" if f.len() >= 5 => {
                let detail = f[4..].join(" ");
                if let Some(k) = known_match(known, f[1], f[2], &detail) {
                    let e = agg.known.entry(k.line.clone()).or_insert((0, detail.clone()));
                    e.0 += 1;
                }
            }
            "HARNESS" => agg.harness.push(f[1..].join(" ")),
            "NOTE" => agg.notes.push(f[1..].join(" ")),
            "HASH" if f.len() == 3 => {
                agg.hashes.insert(f[1].parse().unwrap_or(0), f[2].to_string());
            }
            "DONE" => done = true,
            _ => {}
        }
    }
    done
}

fn absorb_bin(agg: &mut Agg, path: &Path) {
    if let Ok(mut f) = std::fs::File::open(path) {
        let mut buf = Vec::new();
        let _ = f.read_to_end(&mut buf);
        for rec in buf.chunks_exact(9) {
            let x = u64::from_le_bytes(rec[1..9].try_into().unwrap());
            match rec[0] {
                1 => {
                    agg.fps.insert(x);
                }
                2 => {
                    agg.orders.insert(x);
                }
                _ => {
                    agg.ends.insert(x);
                }
            }
        }
    }
    let _ = std::fs::remove_file(path);
}

pub struct Plan {
    pub prop: Prop,
    pub tier: String,
    pub base: u64,
    pub runs: u64,
    pub batch: u64,
    pub workers: usize,
    pub time_budget_s: u64,
    pub fp_mask: u64,
    pub mode: String,
    pub bins: Vec<(String, PathBuf)>,
}

fn execute(plan: &Plan, known: &[Known]) -> (Agg, u64, f64) {
    let tmp = root().join("sim/target/tmp");
    let _ = std::fs::create_dir_all(&tmp);
    let nbatches = (plan.runs + plan.batch - 1) / plan.batch;
    let next = AtomicU64::new(0);
    // remainders of batches whose worker retired early because it had grown too large
    let leftovers: Mutex<Vec<(u64, u64, u64)>> = Mutex::new(Vec::new());
    let stop = AtomicBool::new(false);
    let agg = Mutex::new(Agg::default());
    let dispatched_runs = AtomicU64::new(0);
    let t0 = Instant::now();
    std::thread::scope(|sc| {
        for _ in 0..plan.workers {
            sc.spawn(|| loop {
                if stop.load(Ordering::Relaxed) {
                    break;
                }
                if plan.time_budget_s > 0 && t0.elapsed().as_secs() >= plan.time_budget_s {
                    break;
                }
                let left = leftovers.lock().unwrap().pop();
                let (b, start, count) = match left {
                    Some(x) => x,
                    None => {
                        let b = next.fetch_add(1, Ordering::Relaxed);
                        if b >= nbatches {
                            break;
                        }
                        let start = b * plan.batch;
                        (b, start, plan.batch.min(plan.runs - start))
                    }
                };
                let (bname, bin) = &plan.bins[(b as usize) % plan.bins.len()];
                let outfile = tmp.join(format!("w-{}-{}-{}-{}.bin", std::process::id(), plan.prop.name(), b, start));
                let child = Command::new(bin)
                    .arg("worker")
                    .arg(plan.prop.name())
                    .arg(plan.base.to_string())
                    .arg(start.to_string())
                    .arg(count.to_string())
                    .arg(plan.fp_mask.to_string())
                    .arg(&plan.mode)
                    .arg(&outfile)
                    .env("SMTSIM_ROOT", root())
                    .stdin(Stdio::null())
                    .stdout(Stdio::piped())
                    .stderr(Stdio::piped())
                    .spawn();
                let mut child = match child {
                    Ok(c) => c,
                    Err(e) => {
                        agg.lock().unwrap().harness.push(format!("cannot spawn worker: {e}"));
                        stop.store(true, Ordering::Relaxed);
                        break;
                    }
                };
                let mut text = String::new();
                if let Some(mut so) = child.stdout.take() {
                    let _ = so.read_to_string(&mut text);
                }
                let mut err = String::new();
                if let Some(mut se) = child.stderr.take() {
                    let _ = se.read_to_string(&mut err);
                }
                let status = child.wait();
                // "PARTIAL <next index>": the worker retired early (memory); queue the remainder
                let mut done_count = count;
                for line in text.lines() {
                    if let Some(r) = line.strip_prefix("PARTIAL\t") {
                        if let Ok(nexti) = r.trim().parse::<u64>() {
                            if nexti > start && nexti < start + count {
                                leftovers.lock().unwrap().push((b, nexti, start + count - nexti));
                                done_count = nexti - start;
                            }
                        }
                    }
                }
                let count = done_count;
                let mut a = agg.lock().unwrap();
                let done = absorb(&mut a, &text, known);
                absorb_bin(&mut a, &outfile);
                *a.stats.entry(format!("runs_in_profile_{bname}")).or_insert(0) += if done { count } else { 0 };
                if !done {
                    a.crashed.push((start, count, format!("{:?} {}", status, one_line(&err.chars().take(300).collect::<String>()))));
                }
                dispatched_runs.fetch_add(count, Ordering::Relaxed);
                // fail fast once a few minimised violations are in hand
                if a.viols.len() >= 3 || !a.harness.is_empty() {
                    stop.store(true, Ordering::Relaxed);
                }
            });
        }
    });
    let wall = t0.elapsed().as_secs_f64();
    let agg = agg.into_inner().unwrap();
    (agg, dispatched_runs.load(Ordering::Relaxed), wall)
}

fn fault_kinds_na() -> J {
    J::Arr(
        [
            "message loss / duplication / reordering / delay: the crate has no transport",
            "partitions and heals: single process, no peers",
            "clock skew / jumps, timers: the crate reads no clock",
            "slow or stalled nodes: synchronous library, no tasks",
            "disk errors, short / torn / lost writes, full disk: the crate performs no I/O",
            "failing system calls: none are made",
            "allocation failure: aborts the process in Rust (no unwinding), nothing survives to be checked",
            "OS-thread interleaving: RE/ReManager are !Send, one manager per thread, no synchronisation point exists",
        ]
        .iter()
        .map(|x| s(x))
        .collect(),
    )
}

fn rule_text(p: Prop) -> &'static str {
    match p {
        Prop::C01 => "cases = oracle comparisons in seeded simulated runs (2-5 logical clients interleaved by a seeded scheduler on shared ReManagers incl. the thread-local one, with caught caller panics, derivative-cache eviction, aborted compilations): (a) every constructor result's language (R-dfa of the actual term) == SMT-LIB denotation of the construction, exact with shortest counter-example; (b) str_in_re on the explicit and on DFA-steered strings == definitional matcher on the term and on the construction; (c) nullable flag. distinct = distinct (language fingerprint, rule, query) triples; non-trivial = the language is neither empty nor universal",
        Prop::C02 => "cases = per compiled automaton: bookkeeping, totality of next() from every state on low/middle/high code point of every cell and on the end points (+-1) of the state's own ranges, exact language equality by exploring the product with the reference DFA of the term, accepts() on steered strings; distinct = distinct (language fingerprint, rule, query); non-trivial = language neither empty nor universal",
        Prop::C03 => "cases = per derivative request: result language == left quotient of the operand's reference DFA for every cell of the requested class/set; Err demanded for ill-defined sets / invalid class ids; per class_info query: classes well formed, cover the alphabet, and all test characters of one class have equal reference quotients; distinct = distinct (language fingerprint, rule, character/class); non-trivial = operand language neither empty nor universal",
        Prop::C05 => "cases = is_empty_re vs emptiness of the reference DFA of the actual term (exact); get_string None iff empty, witness well-formed, member by definitional matcher, by str_in_re and by the compiled automaton; distinct = distinct (language fingerprint, rule); non-trivial = language not universal (empty languages are the interesting case here) and not syntactically decided",
        Prop::C07 => "cases = re-issued constructor calls after foreign history (pointer and == identity), == implies ptr::eq on handle pairs, id injective on addresses, complement involution without fixed point, and per step of every client: language/answers on the shared manager == language/answers when the same program runs alone on a fresh manager / fresh thread; distinct = distinct (language fingerprint, rule, op); non-trivial = language neither empty nor universal",
        Prop::C10 => "cases = str_replace_re / str_replace_re_all on the thread-local manager after arbitrary foreign history vs the SMT-LIB definition evaluated with the reference model of the actual pattern term, whole result string compared, explicit subjects plus subjects assembled from DFA-steered members; plus same result on a fresh thread; distinct = distinct (pattern language fingerprint, rule, subject); non-trivial = pattern language neither empty nor universal",
        Prop::C16 => "cases = included_in(r,s) on ordered pairs of live handles (true => exact inclusion of reference DFAs, with counter-example; false never judged) and every union/union_list result must contain the union of the operands' languages; distinct = distinct (pair of language fingerprints, answer); non-trivial = both languages neither empty nor universal and the two terms differ",
        Prop::C18 => "cases = start_char(e,c) == non-emptiness of the reference quotient by c's cell; start_class for every test character of a valid class, BadClassId for an invalid id; distinct = distinct (language fingerprint, rule, cell); non-trivial = language neither empty nor universal",
        Prop::C19 => "cases = per closure query in one manager state: terminates under the cap, first item is e, no duplicates, closed under char_derivative for low/middle/high of every cell, every later item is a derivative of an earlier one, try_compile at 0 / n-1 / n / n+1 / random bound, compile state count; distinct = distinct (language fingerprint, rule, bound/char); non-trivial = language neither empty nor universal",
    }
}

pub fn cmd_check(prop: Prop, tier: &str) -> i32 {
    let base: u64 = std::env::var("VERIF_SEED")
        .ok()
        .and_then(|x| x.trim().parse::<u64>().ok())
        .unwrap_or(DEFAULT_SEED);
    let workers = std::env::var("SMTSIM_WORKERS")
        .ok()
        .and_then(|x| x.parse().ok())
        .unwrap_or_else(|| std::thread::available_parallelism().map(|n| n.get()).unwrap_or(8));
    let thorough = tier == "thorough";
    let envn = |k: &str, d: u64| std::env::var(k).ok().and_then(|x| x.parse().ok()).unwrap_or(d);
    let runs = if thorough {
        envn("SMTSIM_THOROUGH_RUNS", 4_000_000)
    } else {
        envn("SMTSIM_QUICK_RUNS", 60_000)
    };
    let me = std::env::current_exe().expect("exe");
    // batches alternate between the release build and the optimised build that keeps the crate's
    // debug_assert!s and overflow checks: one in four in the quick tier, one in two in thorough
    let mut bins = vec![("release".to_string(), me.clone())];
    if let Ok(p) = std::env::var("SMTSIM_CHECKED_BIN") {
        if Path::new(&p).exists() {
            if !thorough {
                bins.push(("release".to_string(), me.clone()));
                bins.push(("release".to_string(), me.clone()));
            }
            bins.push(("checked_debug_assertions_overflow_checks".to_string(), PathBuf::from(p)));
        }
    }
    let plan = Plan {
        prop,
        tier: tier.to_string(),
        base,
        runs,
        batch: if thorough { 2000 } else { 500 },
        workers,
        time_budget_s: if thorough { envn("SMTSIM_THOROUGH_SECONDS", 900) } else { 0 },
        fp_mask: if thorough { 15 } else { 0 },
        mode: "check".to_string(),
        bins,
    };
    let known = load_known();
    // replay files of earlier runs of this check are stale
    if let Ok(rd) = std::fs::read_dir(root().join("replays")) {
        for e in rd.flatten() {
            let n = e.file_name().to_string_lossy().to_string();
            if n.starts_with(&format!("{}-", prop.name())) && n.ends_with(".replay") {
                let _ = std::fs::remove_file(e.path());
            }
        }
    }
    println!(
        "smtsim check property={} tier={} VERIF_SEED={} planned_runs={} workers={}",
        prop.name(),
        tier,
        base,
        runs,
        workers
    );
    let (mut agg, dispatched, wall) = execute(&plan, &known);

    // batches whose worker died (stack overflow, abort): re-run them one run per process to find
    // the seed; a run that kills its process is reported as a harness error with the seed
    let crashed = std::mem::take(&mut agg.crashed);
    for (start, count, why) in crashed.iter().take(2) {
        let mut found = false;
        for i in *start..*start + *count {
            let outfile = root().join(format!("sim/target/tmp/single-{}-{}.bin", std::process::id(), i));
            let o = Command::new(&me)
                .arg("worker")
                .arg(prop.name())
                .arg(base.to_string())
                .arg(i.to_string())
                .arg("1")
                .arg("0")
                .arg("check")
                .arg(&outfile)
                .env("SMTSIM_ROOT", root())
                .output();
            let _ = std::fs::remove_file(&outfile);
            let ok = o.as_ref().map(|o| String::from_utf8_lossy(&o.stdout).contains("DONE\t")).unwrap_or(false);
            if !ok {
                found = true;
                let seed = run_seed(base, prop, i);
                match crash_probe(&me, prop, seed) {
                    Some((p, path, steps, detail)) => {
                        if p == prop.name() {
                            agg.viols.push((p, "call-kills-process".into(), seed.to_string(), path, steps.to_string(), detail));
                        } else {
                            agg.notes.push(format!("run seed {seed} kills its process in a call owned by {p}: {detail}"));
                        }
                    }
                    None => agg.harness.push(format!("the run with seed {seed} kills its worker process but the crash probe did not reproduce it ({why})")),
                }
                break;
            }
        }
        if !found {
            agg.harness.push(format!("worker process died in batch start={start} count={count} but no single run reproduces it: {why}"));
        }
    }

    let runs_done = *agg.stats.get("runs").unwrap_or(&0);
    let evaluations = *agg.stats.get("evaluations").unwrap_or(&0);
    let mut code = 0;
    for (line, (n, detail)) in &agg.known {
        println!("KNOWN-FINDING: {} (seen {} times in this run; e.g. {})", line, n, detail);
    }
    for (p, rule, seed, path, steps, detail) in &agg.viols {
        println!("VIOLATION property={} replay={}", p, path);
        println!("  rule={} seed={} minimised_steps={} detail={}", rule, seed, steps, detail);
        code = 1;
    }
    for n in agg.notes.iter().take(10) {
        println!("NOTE: {}", n);
    }
    if agg.violmore > 0 {
        println!("  (+{} further violating runs not minimised)", agg.violmore);
    }
    if !agg.harness.is_empty() {
        for h in agg.harness.iter().take(5) {
            println!("HARNESS-ERROR: {}", h);
        }
        if code == 0 {
            code = 2;
        }
    }
    if runs_done == 0 && code == 0 {
        println!("HARNESS-ERROR: no run completed");
        code = 2;
    }

    // evidence
    let mut faults: Vec<(String, J)> = Vec::new();
    let mut probes: Vec<(String, J)> = Vec::new();
    let mut rules: Vec<(String, J)> = Vec::new();
    let mut other: Vec<(String, J)> = Vec::new();
    for (k, v) in &agg.stats {
        let j = J::Int(*v as i64);
        if let Some(r) = k.strip_prefix("fault.") {
            faults.push((r.to_string(), j));
        } else if let Some(r) = k.strip_prefix("probe.") {
            probes.push((r.to_string(), j));
        } else if k.starts_with('c') && k.as_bytes().get(3) == Some(&b'.') {
            rules.push((k.clone(), j));
        } else {
            other.push((k.clone(), j));
        }
    }
    let distinct = agg.fps.len() as i64;
    let mut samples: Vec<J> = agg.samples.iter().take(8).map(|x| s(x)).collect();
    if samples.is_empty() {
        samples.push(s(&format!(
            "run seed {}: {}",
            run_seed(base, prop, 0),
            one_line(&gen::generate(run_seed(base, prop, 0), prop).to_text()).chars().take(400).collect::<String>()
        )));
    }
    let rule = format!(
        "{}{}",
        rule_text(prop),
        if plan.fp_mask != 0 {
            format!(" [thorough tier: only fingerprints with (hash & {}) == 0 are kept, so distinct_nontrivial is a 1/{} sample, i.e. a lower bound]", plan.fp_mask, plan.fp_mask + 1)
        } else {
            String::new()
        }
    );
    let ev = obj(vec![
        ("property_id", s(prop.name())),
        ("tier", s(tier)),
        ("seed", J::Int(base as i64)),
        ("level", s("exploration")),
        (
            "coverage",
            J::Obj(vec![
                ("evaluations".into(), J::Int(evaluations as i64)),
                ("distinct_nontrivial".into(), J::Int(distinct)),
                ("rule".into(), J::Str(rule)),
                ("samples".into(), J::Arr(samples)),
                ("exhaustive".into(), J::Bool(false)),
                ("simulated_runs".into(), J::Int(runs_done as i64)),
                ("runs_dispatched".into(), J::Int(dispatched as i64)),
                ("runs_per_hour".into(), J::Int(if wall > 0.0 { (runs_done as f64 / wall * 3600.0) as i64 } else { 0 })),
                ("seeds".into(), s(&format!("run i uses seed mix(VERIF_SEED ^ property salt, i), i in 0..{}", runs_done))),
                ("steps_executed".into(), J::Int(*agg.stats.get("steps").unwrap_or(&0) as i64)),
                ("simulated_time".into(), s("not applicable: the crate has no clock or timer; progress is measured in API steps")),
                ("distinct_interleavings".into(), J::Int(agg.orders.len() as i64)),
                ("distinct_interleavings_measure".into(), s("distinct sequences of client indices chosen by the scheduler")),
                ("distinct_end_states".into(), J::Int(agg.ends.len() as i64)),
                ("distinct_end_states_measure".into(), s("hash of (terms, cached derivatives) of every manager + sorted language fingerprints of all live handles")),
                ("oracle_rules_evaluated".into(), J::Obj(rules)),
                ("faults_fired".into(), J::Obj(faults)),
                ("fault_kinds_not_applicable".into(), fault_kinds_na()),
                ("reach_probes".into(), J::Obj(probes)),
                ("other_counters".into(), J::Obj(other)),
                ("components_real".into(), J::Arr(["regular_expressions", "smt_regular_expressions (thread_local MANAGER, RefCell)", "character_sets", "loop_ranges", "automata", "minimizer", "partitions", "compact_tables", "matcher", "store", "bfs_queues", "labeled_queues", "smt_strings", "std unwinding (catch_unwind)", "OS threads (one at a time)"].iter().map(|x| s(x)).collect())),
                ("components_stubbed".into(), J::Arr(vec![])),
                ("build_profiles".into(), J::Arr({ let mut v: Vec<String> = plan.bins.iter().map(|(n, _)| n.clone()).collect(); v.dedup(); v.iter().map(|n| s(n)).collect() })),
                ("known_findings_seen".into(), J::Int(agg.known.values().map(|x| x.0 as i64).sum())),
            ]),
        ),
        (
            "assumptions",
            J::Arr(
                [
                    "the reference model (R-dfa textbook constructions + R-match definitional matcher, cross-checked against each other in every run) is the specification of SMT-LIB regular-language semantics",
                    "characters inside one cell of the run's alphabet abstraction are interchangeable for the reference model; the implementation is always driven with concrete code points (low, middle, high of each cell)",
                    "a clean batch is evidence, not proof: seeded search over schedules and fault sequences, not enumeration",
                    "the guarded hooks (read-only term view, cache eviction, access to the thread-local manager) do not change behaviour",
                ]
                .iter()
                .map(|x| s(x))
                .collect(),
            ),
        ),
        ("wall_s", J::Num(wall)),
        ("violations", J::Int(agg.viols.len() as i64 + agg.violmore as i64)),
    ]);
    // tools/sensitivity.sh points this elsewhere so that runs on patched trees never touch the
    // evidence of the real tree
    let evdir = std::env::var("SMTSIM_EVIDENCE_DIR").map(PathBuf::from).unwrap_or_else(|_| root().join("evidence"));
    let _ = std::fs::create_dir_all(&evdir);
    let evpath = evdir.join(format!("{}.json", prop.name()));
    if let Err(e) = std::fs::write(&evpath, ev.to_string()) {
        println!("HARNESS-ERROR: cannot write {}: {}", evpath.display(), e);
        code = 2;
    }
    println!(
        "property={} tier={} runs={} evaluations={} distinct_nontrivial={} interleavings={} end_states={} wall_s={:.1} exit={}",
        prop.name(),
        tier,
        runs_done,
        evaluations,
        distinct,
        agg.orders.len(),
        agg.ends.len(),
        wall,
        code
    );
    code
}

// ------------------------------------------------------------------------------------------
// process-killing runs (stack overflow, abort on allocation failure)
// ------------------------------------------------------------------------------------------

fn died(status: &std::process::ExitStatus) -> bool {
    use std::os::unix::process::ExitStatusExt;
    status.signal().is_some() || !matches!(status.code(), Some(0) | Some(1) | Some(2))
}

/// Re-run one seed in a child that records its progress; returns (property, replay path, steps, detail)
fn crash_probe(me: &Path, prop: Prop, seed: u64) -> Option<(String, String, usize, String)> {
    let pf = root().join(format!("sim/target/tmp/progress-{}-{}", std::process::id(), seed));
    let _ = std::fs::remove_file(&pf);
    let st = Command::new(me)
        .arg("crashprobe")
        .arg(prop.name())
        .arg(seed.to_string())
        .arg(&pf)
        .env("SMTSIM_ROOT", root())
        .stdout(Stdio::null())
        .stderr(Stdio::null())
        .status()
        .ok()?;
    if !died(&st) {
        let _ = std::fs::remove_file(&pf);
        return None;
    }
    let text = std::fs::read_to_string(&pf).ok()?;
    let _ = std::fs::remove_file(&pf);
    let mut it = text.split_whitespace();
    let step: usize = it.next()?.parse().ok()?;
    let op = it.next()?.to_string();
    let owner = crate::runner::owner_of_op(&op, prop.bit());
    let mut tr = gen::generate(seed, prop);
    tr.steps.truncate(step + 1);
    let detail = format!("{} at step {} kills the process ({:?}): stack overflow or allocation failure inside the crate", op, step, st);
    let rp = Replay {
        prop: owner,
        rule: "call-kills-process".into(),
        step,
        detail: detail.clone(),
        original_steps: step + 1,
        trace: tr.clone(),
        log: Vec::new(),
    };
    let dir = root().join("replays");
    let _ = std::fs::create_dir_all(&dir);
    let path = dir.join(format!("{}-{}.replay", owner.name(), seed));
    std::fs::write(&path, rp.to_text()).ok()?;
    Some((owner.name().to_string(), path.display().to_string(), tr.steps.len(), detail))
}

pub fn cmd_crashprobe(prop: Prop, seed: u64, pf: &str) -> i32 {
    limit_memory(8 << 30);
    let _ = crate::exec::PROGRESS_FILE.set(pf.to_string());
    let tr = gen::generate(seed, prop);
    let _ = check_trace(&tr, prop.bit(), false);
    0
}

pub fn cmd_exec_trace(path: &str) -> i32 {
    limit_memory(8 << 30);
    let text = std::fs::read_to_string(path).unwrap_or_default();
    match Replay::from_text(&text) {
        Ok(rp) => {
            let _ = check_trace(&rp.trace, rp.prop.bit(), false);
            0
        }
        Err(_) => 2,
    }
}

// ------------------------------------------------------------------------------------------
// replay
// ------------------------------------------------------------------------------------------

pub fn cmd_replay(path: &str) -> i32 {
    let text = match std::fs::read_to_string(path) {
        Ok(t) => t,
        Err(e) => {
            println!("HARNESS-ERROR: cannot read {path}: {e}");
            return 2;
        }
    };
    let rp = match Replay::from_text(&text) {
        Ok(r) => r,
        Err(e) => {
            println!("HARNESS-ERROR: cannot parse {path}: {e}");
            return 2;
        }
    };
    if rp.rule == "call-kills-process" {
        // must be observed from outside: run the trace in a child process
        let me = std::env::current_exe().expect("exe");
        let st = Command::new(&me).arg("exec-trace").arg(path).stdout(Stdio::null()).stderr(Stdio::null()).status();
        return match st {
            Ok(st) if died(&st) => {
                println!("rule={} step={} the child process died: {:?}", rp.rule, rp.step, st);
                println!("VIOLATION property={} replay={}", rp.prop.name(), path);
                1
            }
            other => {
                println!("HARNESS-ERROR: the replay did not reproduce (child: {:?})", other);
                2
            }
        };
    }
    let c = check_trace(&rp.trace, rp.prop.bit(), true);
    for l in &c.out.log {
        println!("{l}");
    }
    match &c.out.violation {
        Some(v) if v.prop == rp.prop && v.rule == rp.rule => {
            let same = v.step == rp.step && one_line(&v.detail) == rp.detail;
            println!("rule={} step={} detail={}", v.rule, v.step, one_line(&v.detail));
            if same {
                println!("VIOLATION property={} replay={}", rp.prop.name(), path);
                1
            } else {
                println!("HARNESS-ERROR: the replay fails with the same rule but different values (recorded: step {} {})", rp.step, rp.detail);
                2
            }
        }
        other => {
            println!("HARNESS-ERROR: the replay did not reproduce (got {:?}, harness {:?})", other, c.out.harness);
            2
        }
    }
}

// ------------------------------------------------------------------------------------------
// determinism self-check
// ------------------------------------------------------------------------------------------

pub fn cmd_determinism(runs: u64) -> i32 {
    let me = std::env::current_exe().expect("exe");
    let known = load_known();
    let mut bad = 0;
    let mut total = 0;
    for &prop in gen::ALL_PROPS {
        let mut results: Vec<BTreeMap<u64, String>> = Vec::new();
        for (workers, batch) in [(1usize, runs), (16, 97), (5, 250)] {
            let plan = Plan {
                prop,
                tier: "determinism".into(),
                base: DEFAULT_SEED,
                runs,
                batch,
                workers,
                time_budget_s: 0,
                fp_mask: u64::MAX,
                mode: "hash".into(),
                bins: vec![("release".into(), me.clone())],
            };
            let (agg, _, _) = execute(&plan, &known);
            if !agg.harness.is_empty() || !agg.crashed.is_empty() {
                println!("HARNESS-ERROR: {:?} {:?}", agg.harness.first(), agg.crashed.first());
                return 2;
            }
            results.push(agg.hashes);
        }
        for i in 0..runs {
            let a = results[0].get(&i);
            total += 1;
            if results.iter().any(|r| r.get(&i) != a) || a.is_none() {
                bad += 1;
                if bad <= 5 {
                    println!("NONDETERMINISM property={} run={} hashes={:?}", prop.name(), i, results.iter().map(|r| r.get(&i)).collect::<Vec<_>>());
                }
            }
        }
        println!("determinism {}: {} runs x 3 process layouts compared", prop.name(), runs);
    }
    if bad > 0 {
        println!("HARNESS-ERROR: {bad} of {total} runs are not reproducible");
        2
    } else {
        println!("determinism ok: {total} runs, 3 executions each (1 worker x 1 batch, 16 workers x 97-run batches, 5 workers x 250-run batches), identical event-log hashes");
        0
    }
}

pub fn print_lines(r: impl Read) {
    for l in BufReader::new(r).lines().map_while(Result::ok) {
        println!("{l}");
    }
}
