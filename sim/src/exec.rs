//! Trace interpreter: executes one explicit trace against the real crate on a fresh OS thread,
//! evaluating the enabled oracles after every step. Never draws from the run's PRNG: every
//! auxiliary random choice is derived from salts stored in (or hashed from) the trace itself.

use std::collections::{BTreeMap, HashMap, HashSet};
use std::sync::atomic::{AtomicU64, Ordering};
use std::sync::Arc;

use aws_smt_strings::character_sets::ClassId;
use aws_smt_strings::regular_expressions::RegLan;

use crate::ast::{self, rmatch, A};
use crate::calls::*;
use crate::dfa::{Cell, Dfa};
use crate::gen::Prop;
use crate::model::*;
use crate::rng::{mix, DetHasher, Rng};
use crate::trace::*;

#[derive(Clone, Debug)]
pub struct Config {
    /// bit mask of enabled properties (Prop::bit)
    pub props: u32,
    pub want_log: bool,
    /// execute only this client's steps (isolation replica)
    pub solo: Option<u8>,
}

#[derive(Clone, Debug)]
pub struct Violation {
    pub prop: Prop,
    pub rule: &'static str,
    pub step: usize,
    pub detail: String,
}

#[derive(Clone, Debug)]
pub enum Obs {
    /// language of a result term: fingerprint + canonical DFA (None = opaque), nullable flag
    /// + hash of the printed structure of the term (independent of ids)
    Lang(u64, Option<Arc<Dfa>>, bool, u64),
    Bool(bool),
    Text(Vec<u32>),
    Faulted,
    Nothing,
}

#[derive(Debug)]
pub enum Stop {
    Violation(Violation),
    Harness(String),
    /// an anomaly that belongs to a property that is not enabled in this run
    Foreign(Prop, &'static str),
}

pub type Stats = BTreeMap<&'static str, u64>;

#[derive(Clone, Debug, Default)]
pub struct Outcome {
    pub violation: Option<Violation>,
    pub harness: Option<String>,
    pub foreign: Option<(Prop, &'static str)>,
    pub stats: Stats,
    pub log_hash: u64,
    pub log: Vec<String>,
    /// per client: (index of the step within the client's own program, op name, observation)
    pub obs: Vec<Vec<(usize, &'static str, Obs)>>,
    pub samples: Vec<String>,
    /// hashes of (language, query) pairs whose language is neither empty nor universal
    pub fps: Vec<u64>,
    pub steps_done: usize,
    pub order_hash: u64,
    pub end_state_hash: u64,
    /// the run did not finish within the watchdog limit: (step index, op, inside a library call?)
    pub hang: Option<(usize, &'static str, bool)>,
}

pub struct Handle {
    pub re: RegLan,
    pub spec: A,
    pub rec: Option<Call>,
    pub cat: Cat,
}

pub struct Client {
    pub mgr: usize,
    pub pool: Vec<Handle>,
    pub nsteps: usize,
}

pub struct MgrState {
    pub m: Mgr,
    pub memo: Memo,
    /// owner (client) of every term id, by the step that allocated it; 255 = initial terms
    pub id_owner: Vec<u8>,
    /// first client that obtained a given term as a result
    pub first_owner: HashMap<usize, u8>,
    /// id -> address of every term seen as a result (for the injectivity rule of C07)
    pub id2ptr: HashMap<usize, usize>,
    /// cache entries present at the last eviction (for the miss-after-eviction probe)
    pub evicted: u64,
    /// memo of the sizing probe, by term address
    pub sized: HashMap<usize, Option<usize>>,
    /// terms already given the bounded-liveness probe
    pub deep_done: std::collections::HashSet<usize>,
}

pub struct World<'t> {
    pub trace: &'t Trace,
    pub cfg: Config,
    pub alpha: Alphabet,
    pub k: usize,
    pub mgrs: Vec<MgrState>,
    pub clients: Vec<Client>,
    pub out: Outcome,
    pub step_idx: usize,
    pub spec_memo: HashMap<usize, Option<Arc<Dfa>>>,
    pub hasher: DetHasher,
    pub fpset: HashSet<u64>,
    pub order: DetHasher,
}

/// reference-model work allowed per step (transitions built); beyond it terms become opaque
pub const STEP_DFA_BUDGET: u64 = 1_500_000;

/// progress marker read by the watchdog: (step index << 8) | op index
pub static PROGRESS: AtomicU64 = AtomicU64::new(0);
/// crash probe: the index and op of the step about to be executed are written to this file
pub static PROGRESS_FILE: std::sync::OnceLock<String> = std::sync::OnceLock::new();
/// print log lines to stderr as they are produced (debugging aid: `smtsim one ... --live`)
pub static LIVE: AtomicU64 = AtomicU64::new(0);

pub fn watchdog_secs() -> u64 {
    std::env::var("SMTSIM_WATCHDOG_S")
        .ok()
        .and_then(|x| x.parse().ok())
        .unwrap_or(60)
}

pub fn run_trace(trace: &Trace, cfg: &Config) -> Outcome {
    let trace = trace.clone();
    let cfg = cfg.clone();
    let (tx, rx) = std::sync::mpsc::channel();
    let h = std::thread::Builder::new()
        .name("sim-run".into())
        .stack_size(256 << 20)
        .spawn(move || {
            let o = run_inner(&trace, &cfg);
            let _ = tx.send(o);
        })
        .expect("spawn");
    // the watchdog is per step: it fires when the progress marker has not moved for the limit
    let limit = std::time::Duration::from_secs(watchdog_secs());
    let mut last = PROGRESS.load(Ordering::Relaxed);
    let mut since = std::time::Instant::now();
    loop {
        match rx.recv_timeout(std::time::Duration::from_millis(250)) {
            Ok(o) => {
                let _ = h.join();
                return o;
            }
            Err(std::sync::mpsc::RecvTimeoutError::Timeout) => {
                let p = PROGRESS.load(Ordering::Relaxed);
                if p != last {
                    last = p;
                    since = std::time::Instant::now();
                } else if since.elapsed() >= limit {
                    // the thread cannot be stopped; the caller reports and lets the process end
                    let in_lib = IN_LIBRARY.load(Ordering::Relaxed) != 0;
                    let op = ALL_OPS.get((p & 0xff) as usize).map(|o| o.name()).unwrap_or("?");
                    let mut o = Outcome::default();
                    o.hang = Some(((p >> 8) as usize, op, in_lib));
                    return o;
                }
            }
            Err(_) => {
                let _ = h.join();
                let mut o = Outcome::default();
                o.harness = Some("simulator thread panicked outside a guarded call".into());
                return o;
            }
        }
    }
}

fn run_inner(trace: &Trace, cfg: &Config) -> Outcome {
    let alpha = Alphabet::new(&trace.cuts);
    let k = alpha.k();
    let nm = trace.clients.iter().map(|&m| m as usize).max().unwrap_or(0) + 1;
    let mut w = World {
        trace,
        cfg: cfg.clone(),
        alpha,
        k,
        mgrs: Vec::new(),
        clients: Vec::new(),
        out: Outcome::default(),
        step_idx: 0,
        spec_memo: HashMap::new(),
        hasher: DetHasher::new(),
        fpset: HashSet::new(),
        order: DetHasher::new(),
    };
    for i in 0..nm {
        let mut m = Mgr::new(i == 0);
        let (terms, _, _) = m.stats();
        w.mgrs.push(MgrState {
            m,
            memo: HashMap::new(),
            id_owner: vec![255; terms],
            first_owner: HashMap::new(),
            id2ptr: HashMap::new(),
            evicted: 0,
            sized: HashMap::new(),
            deep_done: std::collections::HashSet::new(),
        });
    }
    w.out.obs = vec![Vec::new(); trace.clients.len()];
    // C07 (e): one manager per thread. A sibling thread looks at *its* thread-local manager before
    // the run, is parked, and looks again after the run (one thread runs at a time).
    let sibling = if cfg.props & Prop::C07.bit() != 0 && trace.clients.iter().any(|&m| m == 0) && cfg.solo.is_none() {
        let (to_sib, sib_rx) = std::sync::mpsc::channel::<()>();
        let (sib_tx, from_sib) = std::sync::mpsc::channel::<(usize, usize, usize)>();
        let h = std::thread::spawn(move || {
            let look = || aws_smt_strings::smt_regular_expressions::verif_with_manager(|m| m.verif_stats());
            let _ = sib_tx.send(look());
            let _ = sib_rx.recv();
            let _ = sib_tx.send(look());
        });
        let before = from_sib.recv().ok();
        Some((to_sib, from_sib, h, before))
    } else {
        None
    };
    let mut r = w.run();
    if let Some((to_sib, from_sib, h, before)) = sibling {
        let _ = to_sib.send(());
        let after = from_sib.recv().ok();
        let _ = h.join();
        if r.is_ok() {
            w.eval(Prop::C07, "c07.one-manager-per-thread", 0, 0, false);
            w.step_idx = trace.steps.len().saturating_sub(1);
            r = w.judge(Prop::C07, "c07.one-manager-per-thread", before.is_some() && before == after, || {
                format!(
                    "a parked sibling thread saw its thread-local manager change from {:?} to {:?} (terms, ids, cached derivatives) while this thread used the SMT-LIB wrappers",
                    before, after
                )
            });
        }
    }
    match r {
        Ok(()) => {}
        Err(Stop::Violation(v)) => w.out.violation = Some(v),
        Err(Stop::Harness(s)) => w.out.harness = Some(s),
        Err(Stop::Foreign(p, r)) => {
            w.bump("foreign_anomaly_runs");
            w.out.foreign = Some((p, r))
        }
    }
    w.finish();
    w.out
}

impl<'t> World<'t> {
    pub fn bump(&mut self, key: &'static str) {
        *self.out.stats.entry(key).or_insert(0) += 1;
    }
    pub fn add(&mut self, key: &'static str, n: u64) {
        *self.out.stats.entry(key).or_insert(0) += n;
    }
    pub fn on(&self, p: Prop) -> bool {
        self.cfg.props & p.bit() != 0
    }

    pub fn log(&mut self, line: String) {
        self.hasher.write_str(&line);
        if self.cfg.want_log {
            if LIVE.load(Ordering::Relaxed) != 0 {
                eprintln!("{line}");
            }
            self.out.log.push(line);
        }
    }

    /// keep a few logged comparisons for the evidence file (skipping the dullest ones)
    pub fn sample(&mut self, line: String) {
        if self.out.samples.len() < 3 && line.chars().count() >= 48 {
            self.out.samples.push(line);
        }
    }

    /// record one oracle evaluation; `lang` is the fingerprint of the language involved (0 if
    /// unknown), `nontrivial` whether that language is neither empty nor universal
    pub fn eval(&mut self, p: Prop, rule: &'static str, lang: u64, query: u64, nontrivial: bool) {
        let _ = p;
        self.bump("evaluations");
        self.bump(rule);
        if nontrivial {
            let h = mix(lang, query ^ (rule.len() as u64) << 56);
            if self.fpset.insert(h) {
                self.out.fps.push(h);
            }
        }
    }

    /// Judge a rule. ok = false ends the run: as a violation if the property is enabled, quietly
    /// (counted) otherwise.
    pub fn judge(
        &mut self,
        p: Prop,
        rule: &'static str,
        ok: bool,
        detail: impl FnOnce() -> String,
    ) -> Result<(), Stop> {
        if ok {
            return Ok(());
        }
        if self.on(p) {
            Err(Stop::Violation(Violation {
                prop: p,
                rule,
                step: self.step_idx,
                detail: detail(),
            }))
        } else {
            Err(Stop::Foreign(p, rule))
        }
    }

    pub fn info(&mut self, mi: usize, r: RegLan) -> Arc<TermInfo> {
        let ms = &mut self.mgrs[mi];
        term_info(r, &self.alpha, &mut ms.memo)
    }

    /// may a search over the whole derivative graph of this term be requested? (see sizing_probe)
    pub fn searchable(&mut self, mi: usize, r: RegLan) -> bool {
        if let Some(x) = self.mgrs[mi].sized.get(&key(r)) {
            return x.is_some();
        }
        let mut x = sizing_probe(r);
        if x.is_some() {
            // the scratch copy looked small: confirm on the manager itself
            let ms = &mut self.mgrs[mi];
            x = ms.m.with(|m| sizing_probe_in_place(m, r));
            self.bump("sizing_probes_in_place");
            if x.is_none() {
                self.bump("sizing_probe_scratch_copy_was_smaller");
            }
        }
        if std::env::var("SMTSIM_DEBUG_PROBE").is_ok() {
            eprintln!("probe {} -> {:?}", show(r), x);
        }
        self.mgrs[mi].sized.insert(key(r), x);
        self.bump("sizing_probes");
        x.is_some()
    }

    pub fn spec_dfa(&mut self, spec: &A) -> Option<Arc<Dfa>> {
        ast::to_dfa(spec, self.k, &mut self.spec_memo)
    }

    /// per-step salt: a function of the seed and of the step's own content, so that it does not
    /// change when other steps are deleted by the minimiser
    pub fn salt(&self, st: &Step) -> u64 {
        let mut h = DetHasher::new();
        h.write_u64(self.trace.seed);
        h.write_str(st.op.name());
        h.write_u64(st.client as u64);
        for &x in &st.a {
            h.write_u64(x as u64);
        }
        for v in [&st.s, &st.t, &st.l] {
            h.write_u64(v.len() as u64);
            for &x in v.iter() {
                h.write_u64(x as u64);
            }
        }
        h.finish()
    }

    /// instantiate a cell string with concrete code points (low / middle / high of each cell)
    pub fn instantiate(&self, w: &[Cell], rng: &mut Rng) -> Vec<u32> {
        w.iter()
            .map(|&c| match rng.below(3) {
                0 => self.alpha.lo(c as usize),
                1 => self.alpha.mid(c as usize),
                _ => self.alpha.hi(c as usize),
            })
            .collect()
    }

    pub fn show_str(&self, w: &[u32]) -> String {
        let cells = self.alpha.to_cells(w);
        format!("{:x?} (cells {:?})", w, cells)
    }

    fn init_clients(&mut self) -> Result<(), Stop> {
        for (ci, &mi) in self.trace.clients.iter().enumerate() {
            let mi = mi as usize;
            let mut pool = Vec::new();
            for op in [OpKind::ReNone, OpKind::Eps, OpKind::AllChar] {
                let call = Call {
                    op,
                    hs: vec![],
                    n1: 0,
                    n2: 0,
                    s: vec![],
                    t: vec![],
                    cid: None,
                };
                let ms = &mut self.mgrs[mi];
                let r = guarded(|| do_call(&mut ms.m, &call));
                let re = match r {
                    Ok(Ret::Re(re)) => re,
                    _ => {
                        return self
                            .judge(Prop::C01, "c01.valid-call-panicked", false, || {
                                format!("initial constant {} panicked", op.name())
                            })
                            .map(|_| ())
                    }
                };
                let spec = match op {
                    OpKind::ReNone => ast::empty(),
                    OpKind::Eps => ast::eps(),
                    _ => ast::cells(0, (self.k - 1) as Cell),
                };
                pool.push(Handle {
                    re,
                    spec,
                    rec: Some(call),
                    cat: Cat::Ctor,
                });
            }
            self.clients.push(Client {
                mgr: mi,
                pool,
                nsteps: 0,
            });
            let _ = ci;
        }
        Ok(())
    }

    fn run(&mut self) -> Result<(), Stop> {
        self.log(format!(
            "seed {} cuts {:?} clients {:?} solo {:?}",
            self.trace.seed, self.trace.cuts, self.trace.clients, self.cfg.solo
        ));
        self.init_clients()?;
        let steps = &self.trace.steps;
        for (i, st) in steps.iter().enumerate() {
            let ci = st.client as usize % self.clients.len();
            if let Some(solo) = self.cfg.solo {
                if ci != solo as usize {
                    continue;
                }
            }
            self.step_idx = i;
            PROGRESS.store(((i as u64) << 8) | (st.op as u64), Ordering::Relaxed);
            if self.cfg.solo.is_none() {
                if let Some(pf) = PROGRESS_FILE.get() {
                    let _ = std::fs::write(pf, format!("{} {}", i, st.op.name()));
                }
            }
            self.order.write_u64(ci as u64);
            let before = {
                let mi = self.clients[ci].mgr;
                self.mgrs[mi].m.stats()
            };
            self.exec_step(ci, st)?;
            // bookkeeping: who allocated which ids; cache growth
            let mi = self.clients[ci].mgr;
            let after = self.mgrs[mi].m.stats();
            if after.0 > before.0 {
                self.add("terms_created", (after.0 - before.0) as u64);
                let ms = &mut self.mgrs[mi];
                ms.id_owner.resize(after.0, ci as u8);
            }
            if after.2 > before.2 {
                self.add("cache_entries_created", (after.2 - before.2) as u64);
                if self.mgrs[mi].evicted > 0 {
                    self.bump("probe.cache_miss_after_eviction");
                }
            }
            self.clients[ci].nsteps += 1;
            self.out.steps_done += 1;
            self.bump("steps");
        }
        Ok(())
    }

    fn finish(&mut self) {
        self.out.log_hash = self.hasher.finish();
        self.out.order_hash = self.order.finish();
        // end state: manager sizes + sorted language fingerprints of all live handles
        let mut h = DetHasher::new();
        for ms in self.mgrs.iter_mut() {
            let s = ms.m.stats();
            h.write_u64(s.0 as u64);
            h.write_u64(s.2 as u64);
        }
        let mut fps: Vec<u64> = Vec::new();
        for ci in 0..self.clients.len() {
            let mi = self.clients[ci].mgr;
            for hi in 0..self.clients[ci].pool.len() {
                let re = self.clients[ci].pool[hi].re;
                let ms = &mut self.mgrs[mi];
                if let Some(i) = ms.memo.get(&key(re)) {
                    fps.push(i.dfa.as_ref().map(|d| d.fingerprint()).unwrap_or(1));
                }
            }
        }
        fps.sort_unstable();
        for f in fps {
            h.write_u64(f);
        }
        self.out.end_state_hash = h.finish();
    }

    pub fn handle(&self, ci: usize, raw: u32) -> usize {
        raw as usize % self.clients[ci].pool.len()
    }

    pub fn push_obs(&mut self, ci: usize, op: &'static str, o: Obs) {
        let n = self.clients[ci].nsteps;
        self.out.obs[ci].push((n, op, o));
    }

    fn placeholder(&mut self, ci: usize) {
        let none = self.clients[ci].pool[0].re;
        self.clients[ci].pool.push(Handle {
            re: none,
            spec: ast::empty(),
            rec: None,
            cat: Cat::Fault,
        });
    }

    /// class ids of a term: the valid ones in order, then two invalid candidates
    pub fn class_choice(&self, re: RegLan, raw: u32) -> (ClassId, bool) {
        let valid: Vec<ClassId> = re.class_ids().collect();
        let n = re.num_deriv_classes();
        let i = raw as usize % (valid.len() + 2);
        if i < valid.len() {
            (valid[i], true)
        } else if i == valid.len() {
            (ClassId::Interval(n + (raw as usize / 16) % 3), false)
        } else if re.empty_complement() && raw % 3 != 0 {
            (ClassId::Complement, false)
        } else {
            // invalid interval ids: just past the end, far past it, and values whose low 32 bits
            // look like a valid index
            let j = (raw as usize / 7) % n.max(1);
            let id = match (raw / 3) % 5 {
                0 => n + 7,
                1 => (1usize << 32) + j,
                2 => (3usize << 32) + j,
                3 => usize::MAX,
                _ => n + 65_536,
            };
            (ClassId::Interval(id), false)
        }
    }

    /// the announced derivative classes of a term as code-point intervals
    pub fn class_ranges(&self, re: RegLan) -> Vec<(u32, u32)> {
        re.char_ranges().map(|s| s.verif_bounds()).collect()
    }

    pub fn class_of_point(ranges: &[(u32, u32)], x: u32) -> ClassId {
        for (i, &(a, b)) in ranges.iter().enumerate() {
            if a <= x && x <= b {
                return ClassId::Interval(i);
            }
        }
        ClassId::Complement
    }

    // ------------------------------------------------------------------------------------
    // one step
    // ------------------------------------------------------------------------------------

    fn exec_step(&mut self, ci: usize, st: &Step) -> Result<(), Stop> {
        // wide alphabets make every transition row longer: scale the work budget with it
        crate::dfa::set_budget(STEP_DFA_BUDGET * (1 + self.k as u64 / 12));
        match st.op.cat() {
            Cat::Ctor => self.step_ctor(ci, st),
            Cat::Deriv => self.step_deriv(ci, st),
            Cat::Query => self.step_query(ci, st),
            Cat::History => self.step_history(ci, st),
            Cat::Fault => self.step_fault(ci, st),
        }
    }

    /// resolve the raw operands of a constructor step into a Call and its specification
    fn resolve_ctor(&mut self, ci: usize, st: &Step) -> (Call, A, Vec<usize>) {
        use OpKind::*;
        let k = self.k;
        let mut hidx: Vec<usize> = Vec::new();
        let mut call = Call {
            op: st.op,
            hs: vec![],
            n1: 0,
            n2: 0,
            s: vec![],
            t: vec![],
            cid: None,
        };
        let spec_of = |w: &World, i: usize| w.clients[ci].pool[i].spec.clone();
        let spec: A = match st.op {
            ReNone => ast::empty(),
            All => ast::looped(&ast::cells(0, (k - 1) as Cell), 0, None),
            AllChar => ast::cells(0, (k - 1) as Cell),
            Eps => ast::eps(),
            Char => {
                let c = self.alpha.single(st.a[0]);
                call.n1 = c;
                let cell = self.alpha.cell_of(c) as Cell;
                ast::cells(cell, cell)
            }
            Range => {
                let a = st.a[0] as usize % k;
                let b = st.a[1] as usize % k;
                let (a, b) = (a.min(b), a.max(b));
                call.n1 = self.alpha.lo(a);
                call.n2 = self.alpha.hi(b);
                ast::cells(a as Cell, b as Cell)
            }
            SmtRange => {
                call.s = st.s.iter().map(|&c| self.alpha.single(c % BAD_BASE)).collect();
                call.t = st.t.iter().map(|&c| self.alpha.single(c % BAD_BASE)).collect();
                if call.s.len() == 1 && call.t.len() == 1 && call.s[0] <= call.t[0] {
                    ast::cells(
                        self.alpha.cell_of(call.s[0]) as Cell,
                        self.alpha.cell_of(call.t[0]) as Cell,
                    )
                } else {
                    ast::empty()
                }
            }
            Str => {
                call.s = st.s.iter().map(|&c| self.alpha.single(c % BAD_BASE)).collect();
                let v: Vec<A> = call
                    .s
                    .iter()
                    .map(|&c| {
                        let cell = self.alpha.cell_of(c) as Cell;
                        ast::cells(cell, cell)
                    })
                    .collect();
                ast::concat_list(&v)
            }
            Concat | Union | Inter | Diff => {
                let a = self.handle(ci, st.a[0]);
                let b = self.handle(ci, st.a[1]);
                hidx = vec![a, b];
                let (sa, sb) = (spec_of(self, a), spec_of(self, b));
                match st.op {
                    Concat => ast::concat(&sa, &sb),
                    Union => ast::union(vec![sa, sb]),
                    Inter => ast::inter(vec![sa, sb]),
                    _ => ast::inter(vec![sa, ast::compl(&sb)]),
                }
            }
            ConcatList | UnionList | InterList => {
                hidx = st.l.iter().map(|&x| self.handle(ci, x)).collect();
                let specs: Vec<A> = hidx.iter().map(|&i| spec_of(self, i)).collect();
                match st.op {
                    ConcatList => ast::concat_list(&specs),
                    UnionList => ast::union(specs),
                    _ => ast::inter(specs),
                }
            }
            DiffList => {
                let a = self.handle(ci, st.a[0]);
                hidx = vec![a];
                hidx.extend(st.l.iter().map(|&x| self.handle(ci, x)));
                let mut v = vec![spec_of(self, a)];
                for &i in &hidx[1..] {
                    v.push(ast::compl(&spec_of(self, i)));
                }
                ast::inter(v)
            }
            Compl | Star | Plus | Opt => {
                let a = self.handle(ci, st.a[0]);
                hidx = vec![a];
                let sa = spec_of(self, a);
                match st.op {
                    Compl => ast::compl(&sa),
                    Star => ast::looped(&sa, 0, None),
                    Plus => ast::looped(&sa, 1, None),
                    _ => ast::looped(&sa, 0, Some(1)),
                }
            }
            Exp => {
                let a = self.handle(ci, st.a[0]);
                hidx = vec![a];
                call.n1 = st.a[1];
                ast::looped(&spec_of(self, a), st.a[1], Some(st.a[1]))
            }
            Loop => {
                let a = self.handle(ci, st.a[0]);
                hidx = vec![a];
                call.n1 = st.a[1];
                call.n2 = st.a[2];
                if st.a[1] <= st.a[2] {
                    ast::looped(&spec_of(self, a), st.a[1], Some(st.a[2]))
                } else {
                    ast::empty()
                }
            }
            LoopInf => {
                let a = self.handle(ci, st.a[0]);
                hidx = vec![a];
                call.n1 = st.a[1];
                ast::looped(&spec_of(self, a), st.a[1], None)
            }
            _ => unreachable!(),
        };
        call.hs = hidx.iter().map(|&i| self.clients[ci].pool[i].re).collect();
        (call, spec, hidx)
    }

    /// may this call legitimately panic with an arithmetic overflow of loop counters?
    fn overflow_excused(&mut self, mi: usize, call: &Call) -> bool {
        if matches!(call.op, OpKind::Exp | OpKind::Loop | OpKind::LoopInf)
            && (call.n1 >= BIG_LOOP || call.n2 >= BIG_LOOP)
        {
            return true;
        }
        for &h in &call.hs {
            if self.info(mi, h).big {
                return true;
            }
        }
        false
    }

    /// checks common to every term returned to a client: nullable flag (C01), id injectivity (C07)
    fn check_new_term(&mut self, ci: usize, re: RegLan) -> Result<Arc<TermInfo>, Stop> {
        let mi = self.clients[ci].mgr;
        let info = self.info(mi, re);
        if info.alien {
            self.bump("alien_range_terms");
        }
        if self.on(Prop::C01) && !info.alien {
            let expect = match &info.dfa {
                Some(d) => d.nullable(),
                None => rmatch(&info.ast, &[]).unwrap_or(false),
            };
            let fp = info.dfa.as_ref().map(|d| d.fingerprint()).unwrap_or(0);
            let nt = info
                .dfa
                .as_ref()
                .map(|d| !d.is_empty_lang() && !d.is_full_lang())
                .unwrap_or(true);
            self.eval(Prop::C01, "c01.nullable-flag", fp, 1, nt);
            let got = re.nullable;
            self.judge(Prop::C01, "c01.nullable-flag", got == expect, || {
                format!(
                    "term {} has nullable={} but the empty string is{} in its language",
                    show(re),
                    got,
                    if expect { "" } else { " not" }
                )
            })?;
        }
        // id injective on addresses
        let id = re.verif_id();
        let ptr = key(re);
        let ms = &mut self.mgrs[mi];
        let prev = *ms.id2ptr.entry(id).or_insert(ptr);
        if self.on(Prop::C07) {
            self.eval(Prop::C07, "c07.id-injective", 0, 0, false);
        }
        self.judge(Prop::C07, "c07.id-injective", prev == ptr, || {
            format!("two distinct term objects carry id {id}: they compare equal but are not the same object; one is {}", show(re))
        })?;
        // probes
        let ms = &mut self.mgrs[mi];
        match ms.first_owner.get(&ptr) {
            Some(&o) if o != ci as u8 => self.bump("probe.store_hit_on_foreign_term"),
            Some(_) => {}
            None => {
                ms.first_owner.insert(ptr, ci as u8);
            }
        }
        Ok(info)
    }

    fn step_ctor(&mut self, ci: usize, st: &Step) -> Result<(), Stop> {
        let mi = self.clients[ci].mgr;
        let (call, spec, hidx) = self.resolve_ctor(ci, st);
        let excused = self.overflow_excused(mi, &call);
        let ms = &mut self.mgrs[mi];
        let r = guarded(|| do_call(&mut ms.m, &call));
        let re = match r {
            Ok(Ret::Re(re)) => re,
            Ok(Ret::Err(_)) => unreachable!(),
            Err(msg) => {
                self.log(format!(
                    "#{} c{} {} -> panic: {}",
                    self.step_idx,
                    ci,
                    st.op.name(),
                    msg
                ));
                if excused {
                    self.bump("fault.F1a_loop_overflow_panicked");
                    self.placeholder(ci);
                    self.push_obs(ci, st.op.name(), Obs::Faulted);
                    return Ok(());
                }
                let args: Vec<String> = call.hs.iter().map(|&h| show(h)).collect();
                return self.judge(Prop::C01, "c01.valid-call-panicked", false, || {
                    format!(
                        "{}({}; n={},{}; s={:x?}; t={:x?}) panicked: {}",
                        st.op.name(),
                        args.join(", "),
                        call.n1,
                        call.n2,
                        call.s,
                        call.t,
                        msg
                    )
                });
            }
        };
        self.log(format!(
            "#{} c{} {} {:?} -> {}",
            self.step_idx,
            ci,
            st.op.name(),
            hidx,
            show(re)
        ));
        if excused {
            // the call was allowed to panic; it did not. Its result is only used if the
            // reference model can follow (it cannot for huge counters), so treat it like any other
            self.bump("fault.F1a_loop_overflow_returned");
        }
        let info = self.check_new_term(ci, re)?;
        self.probes_ctor(ci, st.op, &call, re);

        // a term with a character range whose end points the clients never supplied cannot be
        // mapped to the run's alphabet; it is judged on concrete strings around those end points
        if self.on(Prop::C01) && info.alien {
            if let Some(sd) = self.spec_dfa(&spec) {
                let mut pts = Vec::new();
                alien_points(re, &self.alpha, &mut pts, &mut HashSet::new());
                pts.sort_unstable();
                pts.dedup();
                let mut rng = Rng::new(self.salt(st));
                let mut bases: Vec<Vec<Cell>> = Vec::new();
                bases.extend(sd.shortest_accepted());
                bases.extend(sd.shortest_rejected());
                for acc in [true, false, true, false] {
                    bases.extend(sd.steered(&mut rng, acc, 6));
                }
                bases.push(vec![0]);
                for w in bases {
                    let conc = self.instantiate(&w, &mut rng);
                    for i in 0..conc.len() {
                        for &p in &pts {
                            let mut c2 = conc.clone();
                            c2[i] = p;
                            let expect = sd.accepts(&self.alpha.to_cells(&c2));
                            let sstr = smt_str(&c2);
                            let ms = &mut self.mgrs[mi];
                            let got = guarded(|| ms.m.with(|m| m.str_in_re(&sstr, re)));
                            self.eval(Prop::C01, "c01.membership-vs-construction", 0, 0, false);
                            let wt = self.show_str(&c2);
                            self.judge(Prop::C01, "c01.membership-vs-construction", got == Ok(expect), || {
                                format!(
                                    "{} returned {} (it contains a character range with end points that were never supplied); str_in_re({}) = {:?} but the SMT-LIB denotation {} says {}",
                                    st.op.name(), show(re), wt, got, spec, expect
                                )
                            })?;
                        }
                    }
                }
            }
        }

        // C01 (a): language of the actual term == language of the specification
        if self.on(Prop::C01) && !info.alien {
            let sd = self.spec_dfa(&spec);
            match (&sd, &info.dfa) {
                (Some(sd), Some(td)) => {
                    let fp = td.fingerprint();
                    let nt = !td.is_empty_lang() && !td.is_full_lang();
                    self.eval(Prop::C01, "c01.term-equals-spec", fp, st.op as u64 + 100, nt);
                    if **sd != **td {
                        let w = sd.shortest_diff(td).unwrap();
                        let in_spec = sd.accepts(&w);
                        let in_term = td.accepts(&w);
                        if rmatch(&spec, &w).map(|x| x != in_spec).unwrap_or(false)
                            || rmatch(&info.ast, &w).map(|x| x != in_term).unwrap_or(false)
                        {
                            return Err(Stop::Harness(format!(
                                "R-dfa and R-match disagree on {:?}: spec {} term {}",
                                w, spec, info.ast
                            )));
                        }
                        let mut rng = Rng::new(self.salt(st));
                        let cw = self.instantiate(&w, &mut rng);
                        let ms = &mut self.mgrs[mi];
                        let s = smt_str(&cw);
                        let got = guarded(|| ms.m.with(|m| m.str_in_re(&s, re)));
                        let args: Vec<String> = call.hs.iter().map(|&h| show(h)).collect();
                        let wtxt = self.show_str(&cw);
                        return self.judge(Prop::C01, "c01.term-equals-spec", false, || {
                            format!(
                                "{}({}; n={},{}; s={:x?}; t={:x?}) returned {} whose language differs from the SMT-LIB denotation {}: string {} is {} the specified language but {} the term's (str_in_re says {:?})",
                                st.op.name(), args.join(", "), call.n1, call.n2, call.s, call.t, show(re), spec,
                                wtxt,
                                if in_spec { "in" } else { "not in" },
                                if in_term { "in" } else { "not in" },
                                got
                            )
                        });
                    }
                }
                _ => {
                    // opaque: fall back to R-match on derived strings
                    self.bump("opaque_terms");
                    let mut rng = Rng::new(self.salt(st));
                    for _ in 0..6 {
                        let len = rng.below(5) as usize;
                        let w: Vec<Cell> = (0..len).map(|_| rng.below(self.k as u64) as Cell).collect();
                        let (in_spec, in_term) = match (rmatch(&spec, &w), rmatch(&info.ast, &w)) {
                            (Some(a), Some(b)) => (a, b),
                            _ => continue,
                        };
                        self.eval(Prop::C01, "c01.term-equals-spec-sampled", 0, 0, false);
                        self.judge(Prop::C01, "c01.term-equals-spec-sampled", in_spec == in_term, || {
                            format!(
                                "{} returned {}: cell string {:?} is {} the specified language {} but {} the term's",
                                st.op.name(), show(re), w,
                                if in_spec { "in" } else { "not in" }, spec,
                                if in_term { "in" } else { "not in" }
                            )
                        })?;
                    }
                }
            }
        }

        // C16 (b): a union never loses strings of its operands
        if self.on(Prop::C16) && matches!(st.op, OpKind::Union | OpKind::UnionList) && !info.alien {
            let mut acc = Some(Dfa::empty(self.k));
            for &h in &call.hs {
                let hi = self.info(mi, h);
                acc = match (acc, &hi.dfa) {
                    (Some(a), Some(d)) => a.union(d),
                    _ => None,
                };
            }
            if let (Some(u), Some(td)) = (acc, &info.dfa) {
                let nt = !u.is_empty_lang() && !u.is_full_lang();
                self.eval(Prop::C16, "c16.union-keeps-operands", u.fingerprint(), call.hs.len() as u64, nt);
                if let Some(w) = u.shortest_not_subset(td) {
                    if rmatch(&info.ast, &w) == Some(true) {
                        return Err(Stop::Harness(format!(
                            "R-dfa/R-match disagree on union result {} string {:?}",
                            info.ast, w
                        )));
                    }
                    let args: Vec<String> = call.hs.iter().map(|&h| show(h)).collect();
                    return self.judge(Prop::C16, "c16.union-keeps-operands", false, || {
                        format!(
                            "{}({}) returned {} which lost the cell string {:?} contributed by an operand",
                            st.op.name(), args.join(", "), show(re), w
                        )
                    });
                }
            }
        }

        let obs = Obs::Lang(
            info.dfa.as_ref().map(|d| d.fingerprint()).unwrap_or(0),
            info.dfa.clone(),
            re.nullable,
            {
                let mut h = DetHasher::new();
                h.write_str(&format!("{}", re));
                h.finish()
            },
        );
        self.push_obs(ci, st.op.name(), obs);
        self.clients[ci].pool.push(Handle {
            re,
            spec,
            rec: Some(call),
            cat: Cat::Ctor,
        });
        Ok(())
    }

    fn probes_ctor(&mut self, ci: usize, op: OpKind, call: &Call, re: RegLan) {
        let mi = self.clients[ci].mgr;
        if matches!(
            op,
            OpKind::Union | OpKind::Inter | OpKind::UnionList | OpKind::InterList | OpKind::Diff
        ) && call.hs.len() >= 2
        {
            let ids: Vec<usize> = call.hs.iter().map(|h| h.verif_id()).collect();
            let lo = *ids.iter().min().unwrap();
            let hi = *ids.iter().max().unwrap();
            let owner = &self.mgrs[mi].id_owner;
            let mut straddle = false;
            for id in lo + 1..hi {
                if id < owner.len() && owner[id] != ci as u8 && owner[id] != 255 {
                    straddle = true;
                    break;
                }
            }
            if straddle {
                self.bump("probe.operand_ids_straddle_foreign_ids");
            }
            let mut pair = false;
            for &a in &ids {
                for &b in &ids {
                    if a ^ 1 == b {
                        pair = true;
                    }
                }
            }
            if pair {
                self.bump("probe.complement_pair_operands");
            }
            if matches!(op, OpKind::Union | OpKind::UnionList) {
                // subsumption pruning: fewer operands in the result than distinct non-empty inputs
                let mut flat: HashSet<usize> = HashSet::new();
                for &h in &call.hs {
                    match h.verif_expr() {
                        aws_smt_strings::regular_expressions::BaseRegLan::Union(l) => {
                            for x in l.iter() {
                                flat.insert(x.verif_id());
                            }
                        }
                        aws_smt_strings::regular_expressions::BaseRegLan::Empty => {}
                        _ => {
                            flat.insert(h.verif_id());
                        }
                    }
                }
                let out_n = match re.verif_expr() {
                    aws_smt_strings::regular_expressions::BaseRegLan::Union(l) => l.len(),
                    _ => 1,
                };
                if out_n < flat.len() && !pair {
                    self.bump("probe.union_operand_pruned");
                }
            }
        }
        if matches!(op, OpKind::Concat | OpKind::Loop | OpKind::Exp | OpKind::LoopInf | OpKind::Star | OpKind::Plus | OpKind::Opt) {
            use aws_smt_strings::regular_expressions::BaseRegLan as B;
            let arg_loop = call.hs.iter().any(|h| matches!(h.verif_expr(), B::Loop(..)));
            if arg_loop && matches!(re.verif_expr(), B::Loop(..)) {
                self.bump("probe.loop_merge_rule");
            }
        }
    }

    // ------------------------------------------------------------------------------------
    // derivative steps
    // ------------------------------------------------------------------------------------

    fn step_deriv(&mut self, ci: usize, st: &Step) -> Result<(), Stop> {
        use OpKind::*;
        let mi = self.clients[ci].mgr;
        let hi = self.handle(ci, st.a[0]);
        let e = self.clients[ci].pool[hi].re;
        let espec = self.clients[ci].pool[hi].spec.clone();
        let einfo = self.info(mi, e);
        let ranges = self.class_ranges(e);
        let mut call = Call {
            op: st.op,
            hs: vec![e],
            n1: 0,
            n2: 0,
            s: vec![],
            t: vec![],
            cid: None,
        };
        // what is requested, and what the property says must happen
        // expect: Ok(points whose quotient the result must equal) | Err (must be an error) | Fault (may panic)
        enum Expect {
            Quot(Vec<u32>),
            StrQuot(Vec<u32>),
            MustErr,
            MayPanic,
        }
        let expect = match st.op {
            CharDeriv => {
                let c = self.alpha.point(st.a[1] % BAD_BASE);
                call.n1 = c;
                Expect::Quot(vec![c])
            }
            StrDeriv => {
                call.s = st.s.iter().map(|&c| self.alpha.point(c % BAD_BASE)).collect();
                if call.s.len() > crate::queries::LONG_STRING
                    && !(einfo.cost <= COST_CAP && !einfo.big && self.searchable(mi, e))
                {
                    // see queries::LONG_STRING
                    call.s.truncate(crate::queries::LONG_STRING);
                    self.bump("long_strings_truncated_on_heavy_terms");
                }
                Expect::StrQuot(call.s.clone())
            }
            ClassDeriv | ClassDerivUnchecked => {
                let (cid, valid) = self.class_choice(e, st.a[1]);
                call.cid = Some(cid);
                if valid {
                    let pts: Vec<u32> = self
                        .alpha
                        .all_points()
                        .into_iter()
                        .filter(|&p| Self::class_of_point(&ranges, p) == cid)
                        .collect();
                    Expect::Quot(pts)
                } else if st.op == ClassDeriv {
                    Expect::MustErr
                } else {
                    Expect::MayPanic
                }
            }
            SetDeriv | SetDerivUnchecked => {
                let a = self.alpha.point(st.a[1] % BAD_BASE);
                let b = self.alpha.point(st.a[2] % BAD_BASE);
                let (a, b) = (a.min(b), a.max(b));
                call.n1 = a;
                call.n2 = b;
                // classes met by [a,b], from the announced ranges
                let mut inside: Option<usize> = None;
                let mut meets = 0;
                let mut covered: u64 = 0;
                for (i, &(x, y)) in ranges.iter().enumerate() {
                    let lo = a.max(x);
                    let hi = b.min(y);
                    if lo <= hi {
                        meets += 1;
                        covered += (hi - lo + 1) as u64;
                        if x <= a && b <= y {
                            inside = Some(i);
                        }
                    }
                }
                let size = (b - a + 1) as u64;
                let well_defined = (meets == 1 && inside.is_some()) || meets == 0;
                let _ = covered;
                if well_defined {
                    let pts: Vec<u32> = self
                        .alpha
                        .all_points()
                        .into_iter()
                        .filter(|&p| a <= p && p <= b)
                        .chain([a, b])
                        .collect();
                    let _ = size;
                    Expect::Quot(pts)
                } else if st.op == SetDeriv {
                    Expect::MustErr
                } else {
                    Expect::MayPanic
                }
            }
            _ => unreachable!(),
        };
        let cache_before = self.mgrs[mi].m.stats().2;
        let ms = &mut self.mgrs[mi];
        let r = guarded(|| do_call(&mut ms.m, &call));
        let cache_after = self.mgrs[mi].m.stats().2;
        if cache_after == cache_before && matches!(st.op, CharDeriv | ClassDeriv | SetDeriv) {
            self.bump("probe.derivative_served_from_cache");
        }
        let desc = format!(
            "{}({}, c=[{:x},{:x}], cid={:?}, s={:x?})",
            st.op.name(),
            show(e),
            call.n1,
            call.n2,
            call.cid,
            call.s
        );
        let re = match (r, &expect) {
            (Err(msg), Expect::MayPanic) => {
                self.log(format!("#{} c{} {} -> panic (accepted): {}", self.step_idx, ci, desc, msg));
                self.bump("fault.F1a_unchecked_derivative_panicked");
                self.placeholder(ci);
                self.push_obs(ci, st.op.name(), Obs::Faulted);
                return Ok(());
            }
            (Err(msg), _) => {
                self.log(format!("#{} c{} {} -> panic: {}", self.step_idx, ci, desc, msg));
                if einfo.big {
                    self.bump("fault.F1a_loop_overflow_panicked");
                    self.placeholder(ci);
                    self.push_obs(ci, st.op.name(), Obs::Faulted);
                    return Ok(());
                }
                return self.judge(Prop::C03, "c03.valid-call-panicked", false, || {
                    format!("{desc} panicked: {msg}")
                });
            }
            (Ok(Ret::Err(err)), Expect::MustErr) => {
                self.log(format!("#{} c{} {} -> Err({:?})", self.step_idx, ci, desc, err));
                if self.on(Prop::C03) {
                    self.eval(Prop::C03, "c03.error-on-ill-defined", 0, 0, false);
                    if st.op == ClassDeriv {
                        let good = matches!(err, aws_smt_strings::errors::Error::BadClassId);
                        self.judge(Prop::C03, "c03.bad-class-id-kind", good, || {
                            format!("{desc} rejected an invalid class id with {:?} instead of BadClassId", err)
                        })?;
                    }
                }
                self.placeholder(ci);
                self.push_obs(ci, st.op.name(), Obs::Faulted);
                return Ok(());
            }
            (Ok(Ret::Err(err)), _) => {
                self.log(format!("#{} c{} {} -> Err({:?})", self.step_idx, ci, desc, err));
                if self.on(Prop::C03) {
                    self.eval(Prop::C03, "c03.ok-on-well-defined", 0, 0, false);
                }
                return self.judge(Prop::C03, "c03.ok-on-well-defined", false, || {
                    format!("{desc}: the request is well defined (classes {:x?}) but was rejected with {:?}", ranges, err)
                });
            }
            (Ok(Ret::Re(re)), Expect::MustErr) => {
                self.log(format!("#{} c{} {} -> {}", self.step_idx, ci, desc, show(re)));
                if self.on(Prop::C03) {
                    self.eval(Prop::C03, "c03.error-on-ill-defined", 0, 0, false);
                }
                return self.judge(Prop::C03, "c03.error-on-ill-defined", false, || {
                    format!(
                        "{desc} returned Ok({}) although the request is not well defined for the announced classes {:x?}",
                        show(re), ranges
                    )
                });
            }
            (Ok(Ret::Re(re)), Expect::MayPanic) => {
                // an ill-defined unchecked request returned normally: nothing is promised
                self.log(format!("#{} c{} {} -> {} (ill-defined request)", self.step_idx, ci, desc, show(re)));
                self.bump("fault.F1a_unchecked_derivative_returned");
                self.placeholder(ci);
                self.push_obs(ci, st.op.name(), Obs::Faulted);
                return Ok(());
            }
            (Ok(Ret::Re(re)), _) => re,
        };
        self.log(format!("#{} c{} {} -> {}", self.step_idx, ci, desc, show(re)));
        let info = self.check_new_term(ci, re)?;

        // C03 (a)/(d)/(e): the result is the left quotient, for every character of the class / set
        let mut spec = espec.clone();
        match &expect {
            Expect::Quot(pts) => {
                if let Some(&p) = pts.first() {
                    spec = ast::quot(&espec, self.alpha.cell_of(p) as Cell);
                }
                if self.on(Prop::C03) && !info.alien && !einfo.alien {
                    if let (Some(ed), Some(rd)) = (&einfo.dfa, &info.dfa) {
                        let mut cells: Vec<usize> = pts.iter().map(|&p| self.alpha.cell_of(p)).collect();
                        cells.sort_unstable();
                        cells.dedup();
                        for c in cells {
                            let q = ed.quotient(c);
                            let nt = !ed.is_empty_lang() && !ed.is_full_lang();
                            self.eval(Prop::C03, "c03.derivative-is-quotient", ed.fingerprint(), (st.op as u64) << 8 | c as u64, nt);
                            if q != **rd {
                                let w = q.shortest_diff(rd).unwrap();
                                let mut cw = vec![c as Cell];
                                cw.extend_from_slice(&w);
                                let in_e = ed.accepts(&cw);
                                let in_r = rd.accepts(&w);
                                if rmatch(&einfo.ast, &cw).map(|x| x != in_e).unwrap_or(false)
                                    || rmatch(&info.ast, &w).map(|x| x != in_r).unwrap_or(false)
                                {
                                    return Err(Stop::Harness(format!(
                                        "R-dfa and R-match disagree on a quotient: {} / {} string {:?}",
                                        einfo.ast, info.ast, cw
                                    )));
                                }
                                return self.judge(Prop::C03, "c03.derivative-is-quotient", false, || {
                                    format!(
                                        "{desc} returned {}; for a character of cell {c} (in the requested class/set) the continuation {:?} is {} the result but c.w is {} the language of the operand",
                                        show(re), w,
                                        if in_r { "in" } else { "not in" },
                                        if in_e { "in" } else { "not in" }
                                    )
                                });
                            }
                        }
                    } else {
                        self.bump("opaque_terms");
                    }
                }
            }
            Expect::StrQuot(s) => {
                let cells = self.alpha.to_cells(s);
                for &c in &cells {
                    spec = ast::quot(&spec, c);
                }
                if self.on(Prop::C03) && !info.alien && !einfo.alien {
                    if let (Some(ed), Some(rd)) = (&einfo.dfa, &info.dfa) {
                        let q = ed.rooted_at(ed.run(&cells));
                        let nt = !ed.is_empty_lang() && !ed.is_full_lang();
                        self.eval(Prop::C03, "c03.str-derivative-composes", ed.fingerprint(), mix(7, cells.len() as u64), nt);
                        if q != **rd {
                            let w = q.shortest_diff(rd).unwrap();
                            return self.judge(Prop::C03, "c03.str-derivative-composes", false, || {
                                format!(
                                    "{desc} returned {}; continuation {:?} distinguishes it from the quotient by cells {:?}",
                                    show(re), w, cells
                                )
                            });
                        }
                    } else {
                        self.bump("opaque_terms");
                    }
                }
            }
            _ => {}
        }
        let obs = Obs::Lang(
            info.dfa.as_ref().map(|d| d.fingerprint()).unwrap_or(0),
            info.dfa.clone(),
            re.nullable,
            {
                let mut h = DetHasher::new();
                h.write_str(&format!("{}", re));
                h.finish()
            },
        );
        self.push_obs(ci, st.op.name(), obs);
        self.clients[ci].pool.push(Handle {
            re,
            spec,
            rec: Some(call),
            cat: Cat::Deriv,
        });
        Ok(())
    }

    // ------------------------------------------------------------------------------------
    // history steps (C07)
    // ------------------------------------------------------------------------------------

    fn step_history(&mut self, ci: usize, st: &Step) -> Result<(), Stop> {
        let mi = self.clients[ci].mgr;
        match st.op {
            OpKind::Reissue => {
                let hi = self.handle(ci, st.a[0]);
                let (re0, cat) = {
                    let h = &self.clients[ci].pool[hi];
                    (h.re, h.cat)
                };
                let call = match self.clients[ci].pool[hi].rec.clone() {
                    Some(c) => c,
                    None => {
                        self.push_obs(ci, st.op.name(), Obs::Nothing);
                        return Ok(());
                    }
                };
                let foreign_since = {
                    let owner = &self.mgrs[mi].id_owner;
                    let id0 = re0.verif_id();
                    owner.iter().skip(id0 + 1).filter(|&&o| o != ci as u8 && o != 255).count()
                };
                let ms = &mut self.mgrs[mi];
                let r = guarded(|| do_call(&mut ms.m, &call));
                let re1 = match r {
                    Ok(Ret::Re(r)) => r,
                    Ok(Ret::Err(e)) => {
                        return self.judge(Prop::C07, "c07.reissue-same-outcome", false, || {
                            format!("re-issuing {} of {} now fails with {:?}", call.op.name(), show(re0), e)
                        })
                    }
                    Err(msg) => {
                        let big = self.overflow_excused(mi, &call);
                        if big {
                            self.push_obs(ci, st.op.name(), Obs::Faulted);
                            return Ok(());
                        }
                        return self.judge(Prop::C07, "c07.reissue-same-outcome", false, || {
                            format!("re-issuing {} of {} now panics: {}", call.op.name(), show(re0), msg)
                        });
                    }
                };
                self.log(format!(
                    "#{} c{} reissue h{} {} -> {} (was {})",
                    self.step_idx, ci, hi, call.op.name(), show(re1), show(re0)
                ));
                if foreign_since > 0 {
                    self.bump("probe.reissue_after_foreign_terms");
                }
                if self.on(Prop::C07) {
                    let i0 = self.info(mi, re0);
                    let fp = i0.dfa.as_ref().map(|d| d.fingerprint()).unwrap_or(0);
                    let nt = i0.dfa.as_ref().map(|d| !d.is_empty_lang() && !d.is_full_lang()).unwrap_or(true);
                    if cat == Cat::Ctor {
                        self.eval(Prop::C07, "c07.reissue-identical", fp, call.op as u64, nt);
                        let same = std::ptr::eq(re0, re1) && re0 == re1;
                        if foreign_since > 2 {
                            self.sample(format!(
                                "re-issued {} after {} terms of other clients were created: again {} (pointer-identical: {})",
                                call.op.name(), foreign_since, show(re1), std::ptr::eq(re0, re1)
                            ));
                        }
                        self.judge(Prop::C07, "c07.reissue-identical", same, || {
                            format!(
                                "the same constructor {} applied to the same arguments first returned {} and now returns {} (ptr_eq={}, eq={})",
                                call.op.name(), show(re0), show(re1), std::ptr::eq(re0, re1), re0 == re1
                            )
                        })?;
                    } else {
                        // derivative ops: only the language is promised
                        self.eval(Prop::C07, "c07.reissue-derivative-same-language", fp, call.op as u64, nt);
                        if std::ptr::eq(re0, re1) {
                            self.bump("probe.reissued_derivative_pointer_equal");
                        }
                        let i1 = self.info(mi, re1);
                        if let (Some(a), Some(b)) = (&i0.dfa, &i1.dfa) {
                            let same = **a == **b;
                            self.judge(Prop::C07, "c07.reissue-derivative-same-language", same, || {
                                format!(
                                    "derivative {} first returned {} and after further history {} : the languages differ on {:?}",
                                    call.op.name(), show(re0), show(re1), a.shortest_diff(b)
                                )
                            })?;
                        }
                    }
                }
                self.push_obs(ci, st.op.name(), Obs::Nothing);
                Ok(())
            }
            OpKind::Ballast => {
                // history that consists of nothing but many unrelated terms: ids grow, the store
                // and id tables grow, nothing else changes
                let base = st.a[1] % 0x20000;
                let before = self.mgrs[mi].m.stats();
                // counts >= 60 000 mean "up to just below a power-of-two boundary of the id counter"
                // (2^16, 2^17 or 2^18), so that the terms created next straddle the boundary and
                // their ids, reduced modulo it, fall on the oldest terms of the manager
                let n = if st.a[0] >= 60_000 {
                    let boundary: usize = match st.a[0] % 16 {
                        0 => 1 << 20,
                        1 | 2 => 1 << 18,
                        3..=6 => 1 << 17,
                        _ => 1 << 16,
                    };
                    let slack = (st.a[1] as usize / 7) % 48;
                    let target = boundary.saturating_sub(slack);
                    // every new character takes two ids (the term and its complement)
                    (target.saturating_sub(before.0) / 2).min(530_000) as u32
                } else {
                    st.a[0]
                };
                let ms = &mut self.mgrs[mi];
                let r = guarded(|| {
                    ms.m.with(|m| {
                        for i in 0..n {
                            // distinct characters first, then distinct two-character strings
                            if i <= MAX_CHAR {
                                m.char((base + i) % (MAX_CHAR + 1));
                            } else {
                                let a = m.char(i % (MAX_CHAR + 1));
                                let b = m.char((i / 7) % (MAX_CHAR + 1));
                                m.concat(a, b);
                            }
                        }
                    })
                });
                let after = self.mgrs[mi].m.stats();
                self.add("ballast_terms_created", (after.0 - before.0) as u64);
                if after.0 + 64 >= 65_536 && before.0 + 64 < 65_536 {
                    self.bump("probe.ids_brought_to_2_pow_16");
                }
                if after.0 + 64 >= (1 << 17) && before.0 + 64 < (1 << 17) {
                    self.bump("probe.ids_brought_to_2_pow_17");
                }
                if after.0 + 64 >= (1 << 18) && before.0 + 64 < (1 << 18) {
                    self.bump("probe.ids_brought_to_2_pow_18");
                }
                if after.0 + 64 >= (1 << 20) && before.0 + 64 < (1 << 20) {
                    self.bump("probe.ids_brought_to_2_pow_20");
                }
                self.log(format!("#{} c{} ballast {} chars from {:x}: terms {} -> {}", self.step_idx, ci, n, base, before.0, after.0));
                if let Err(msg) = r {
                    return self.judge(Prop::C01, "c01.valid-call-panicked", false, || {
                        format!("char() panicked while creating unrelated terms: {msg}")
                    });
                }
                self.push_obs(ci, st.op.name(), Obs::Nothing);
                Ok(())
            }
            OpKind::EqCheck => {
                let a = self.handle(ci, st.a[0]);
                let b = self.handle(ci, st.a[1]);
                let (ra, rb) = (self.clients[ci].pool[a].re, self.clients[ci].pool[b].re);
                if self.on(Prop::C07) {
                    self.eval(Prop::C07, "c07.equal-implies-identical", 0, 0, false);
                    let ok = (ra == rb) == std::ptr::eq(ra, rb);
                    self.judge(Prop::C07, "c07.equal-implies-identical", ok, || {
                        format!(
                            "terms {} and {}: == is {} but ptr::eq is {}",
                            show(ra), show(rb), ra == rb, std::ptr::eq(ra, rb)
                        )
                    })?;
                }
                self.push_obs(ci, st.op.name(), Obs::Nothing);
                Ok(())
            }
            OpKind::ComplTwice => {
                let a = self.handle(ci, st.a[0]);
                let ra = self.clients[ci].pool[a].re;
                let ms = &mut self.mgrs[mi];
                let global = ms.m.global;
                let r = guarded(|| {
                    if global {
                        let c1 = aws_smt_strings::smt_regular_expressions::re_comp(ra);
                        let c2 = aws_smt_strings::smt_regular_expressions::re_comp(c1);
                        (c1, c2)
                    } else {
                        ms.m.with(|m| {
                            let c1 = m.complement(ra);
                            let c2 = m.complement(c1);
                            (c1, c2)
                        })
                    }
                });
                match r {
                    Err(msg) => self.judge(Prop::C07, "c07.complement-involution", false, || {
                        format!("complement of {} panicked: {}", show(ra), msg)
                    }),
                    Ok((c1, c2)) => {
                        self.log(format!(
                            "#{} c{} compl_twice {} -> {} -> {}",
                            self.step_idx, ci, show(ra), show(c1), show(c2)
                        ));
                        if self.on(Prop::C07) {
                            let i = self.info(mi, ra);
                            let fp = i.dfa.as_ref().map(|d| d.fingerprint()).unwrap_or(0);
                            let nt = i.dfa.as_ref().map(|d| !d.is_empty_lang() && !d.is_full_lang()).unwrap_or(true);
                            self.eval(Prop::C07, "c07.complement-involution", fp, 0, nt);
                            let ok = std::ptr::eq(c2, ra) && c2 == ra && c1 != ra && !std::ptr::eq(c1, ra);
                            self.judge(Prop::C07, "c07.complement-involution", ok, || {
                                format!(
                                    "e = {}, complement(e) = {}, complement(complement(e)) = {}",
                                    show(ra), show(c1), show(c2)
                                )
                            })?;
                        }
                        self.push_obs(ci, st.op.name(), Obs::Nothing);
                        Ok(())
                    }
                }
            }
            _ => unreachable!(),
        }
    }
}
