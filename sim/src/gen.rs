//! Seed -> explicit trace. Swarm style: the number of clients and managers, the alphabet, the
//! operation mix, the enabled fault kinds and their rates are all drawn per run. The generator is
//! the only place that draws from the run's PRNG; the interpreter only ever sees the trace.

use crate::rng::Rng;
use crate::trace::*;

#[derive(Clone, Copy, Debug, PartialEq, Eq, PartialOrd, Ord, Hash)]
pub enum Prop {
    C01,
    C02,
    C03,
    C05,
    C07,
    C10,
    C16,
    C18,
    C19,
}

pub const ALL_PROPS: &[Prop] = &[
    Prop::C01,
    Prop::C02,
    Prop::C03,
    Prop::C05,
    Prop::C07,
    Prop::C10,
    Prop::C16,
    Prop::C18,
    Prop::C19,
];

impl Prop {
    pub fn name(self) -> &'static str {
        match self {
            Prop::C01 => "C01",
            Prop::C02 => "C02",
            Prop::C03 => "C03",
            Prop::C05 => "C05",
            Prop::C07 => "C07",
            Prop::C10 => "C10",
            Prop::C16 => "C16",
            Prop::C18 => "C18",
            Prop::C19 => "C19",
        }
    }
    pub fn from_name(s: &str) -> Option<Prop> {
        ALL_PROPS.iter().copied().find(|p| p.name() == s)
    }
    pub fn bit(self) -> u32 {
        1 << (self as u32)
    }
}

const SINGLES: &[u32] = &[
    0, 1, 0x30, 0x39, 0x3A, 0x41, 0x61, 0x62, 0x63, 0x64, 0x7A, 0x7F, 0x80, 0xFF, 0x100, 0xD7FF,
    0xD800, 0xDBFF, 0xDC00, 0xDFFF, 0xE000, 0xFFFD, 0xFFFE, 0xFFFF, 0x10000, 0x1FFFF, 0x20000,
    0x2FFFE, 0x2FFFF,
];
const EXTRA_CUTS: &[u32] = &[
    2, 0x30, 0x3A, 0x41, 0x5B, 0x61, 0x7B, 0x80, 0x100, 0x800, 0xD800, 0xDC00, 0xE000, 0xFFFE,
    0x10000, 0x20000, 0x2FFFF,
];

struct Gen<'a> {
    rng: &'a mut Rng,
    prop: Prop,
    nsingles: u32,
    /// cell index of every singleton character (to spell query strings with constructor characters)
    single_cells: Vec<u32>,
    ncells: u32,
    pool: Vec<u32>,   // pool length per client
    mgr: Vec<u8>,     // manager per client
    w: Vec<u32>,      // weight per op (indexed like ALL_OPS)
    steps: Vec<Step>, // output
    idiom_rate: u32,  // per mille
    big_loops: bool,
    mid_loops: bool,
    force_many: bool,
    idiom_kinds: u64,
    burst: u32,
    burst_client: usize,
    burst_done: bool,
    max_steps: usize,
}

fn base_weight(op: OpKind) -> u32 {
    use OpKind::*;
    match op {
        ReNone | All | Eps => 2,
        AllChar => 4,
        Char => 14,
        Range => 12,
        SmtRange => 3,
        Str => 10,
        Concat => 14,
        ConcatList => 5,
        Union => 12,
        UnionList => 5,
        Inter => 10,
        InterList => 4,
        Compl => 10,
        Diff => 5,
        DiffList => 2,
        Star => 8,
        Plus => 5,
        Opt => 5,
        Exp => 4,
        Loop => 7,
        LoopInf => 3,
        CharDeriv => 6,
        StrDeriv => 4,
        ClassDeriv => 3,
        ClassDerivUnchecked => 2,
        SetDeriv => 3,
        SetDerivUnchecked => 1,
        StrInRe => 10,
        IsEmpty => 4,
        GetString => 4,
        StartChar => 3,
        StartClass => 2,
        IncludedIn => 3,
        ClassInfo => 2,
        Compile => 3,
        TryCompile => 2,
        Closure => 2,
        Replace => 2,
        ReplaceAll => 2,
        Reissue => 4,
        EqCheck => 2,
        ComplTwice => 2,
        Ballast => 1,
        // faults: scaled by the per-run fault level
        BadChar | BadRange | StrBad | LoopOverflow | Reentrant => 1,
        Evict => 3,
        IterAbandon => 2,
        CompileAbort => 2,
        TrapCall => 2,
    }
}

fn boost(prop: Prop, op: OpKind) -> u32 {
    use OpKind::*;
    match (prop, op) {
        (Prop::C01, StrInRe) => 4,
        (Prop::C02, Compile) => 8,
        (Prop::C02, TryCompile) => 6,
        (Prop::C03, CharDeriv | StrDeriv | ClassDeriv | ClassDerivUnchecked) => 4,
        (Prop::C03, SetDeriv) => 8,
        (Prop::C03, SetDerivUnchecked) => 4,
        (Prop::C03, ClassInfo) => 6,
        (Prop::C05, IsEmpty | GetString) => 16,
        (Prop::C07, Reissue) => 5,
        (Prop::C07, EqCheck | ComplTwice) => 4,
        (Prop::C07, CharDeriv | StrDeriv | Compile | IsEmpty | GetString | StartChar) => 2,
        (Prop::C07, StrInRe) => 3,
        (Prop::C10, Replace | ReplaceAll) => 14,
        (Prop::C16, IncludedIn) => 12,
        (Prop::C16, Union | UnionList) => 2,
        (Prop::C18, StartChar) => 10,
        (Prop::C18, StartClass) => 8,
        (Prop::C19, Closure) => 10,
        (Prop::C19, TryCompile | IterAbandon | CompileAbort) => 4,
        _ => 1,
    }
}

impl<'a> Gen<'a> {
    fn h(&mut self, c: usize) -> u32 {
        let n = self.pool[c] as u64;
        if self.rng.chance(1, 2) {
            // recent
            let back = self.rng.below(n.min(5));
            (n - 1 - back) as u32
        } else {
            self.rng.below(n) as u32
        }
    }

    fn hlist(&mut self, c: usize, max: u64) -> Vec<u32> {
        let n = self.rng.below(max + 1);
        (0..n).map(|_| self.h(c)).collect()
    }

    fn single_code(&mut self) -> u32 {
        self.rng.below(self.nsingles.max(1) as u64) as u32
    }

    fn point_code(&mut self) -> u32 {
        self.rng.below(self.ncells as u64 * 3) as u32
    }

    fn cstr(&mut self) -> Vec<u32> {
        // constructor string: singleton cells only
        let len = match self.rng.below(20) {
            0..=1 => 0,
            2..=6 => 1,
            7..=12 => 2,
            13..=16 => 3,
            17..=18 => 4,
            _ => 5 + self.rng.below(4),
        };
        (0..len).map(|_| self.single_code()).collect()
    }

    fn qstr(&mut self) -> Vec<u32> {
        // query string: any cell, any of low / middle / high point
        let len = match self.rng.below(20) {
            0 => 0,
            1..=4 => 1,
            5..=9 => 2,
            10..=13 => 3,
            14..=16 => 4,
            17..=18 => 5 + self.rng.below(2),
            _ => 7 + self.rng.below(6),
        };
        if self.rng.chance(1, 40) {
            // a long string: prefix . block^k . suffix
            let block: Vec<u32> = (0..1 + self.rng.below(3)).map(|_| self.point_code()).collect();
            let k = 5 + self.rng.below(120);
            let mut v: Vec<u32> = (0..self.rng.below(3)).map(|_| self.point_code()).collect();
            for _ in 0..k {
                v.extend_from_slice(&block);
            }
            for _ in 0..self.rng.below(3) {
                v.push(self.point_code());
            }
            return v;
        }
        (0..len).map(|_| self.point_code()).collect()
    }

    fn count(&mut self) -> u32 {
        match self.rng.below(100) {
            0..=84 => self.rng.below(5) as u32,
            85..=96 => 5 + self.rng.below(8) as u32,
            97 => 13 + self.rng.below(52) as u32,
            98 => {
                // middle range: too big for hand examples, small enough to be fully modelled
                if self.mid_loops {
                    65 + self.rng.below(300) as u32
                } else {
                    13 + self.rng.below(52) as u32
                }
            }
            _ => {
                if self.big_loops {
                    match self.rng.below(3) {
                        0 => 100 + self.rng.below(5_000) as u32,
                        1 => 5_000 + self.rng.below(60_000) as u32,
                        _ => 65_000 + self.rng.below(1 << 20) as u32,
                    }
                } else {
                    self.rng.below(5) as u32
                }
            }
        }
    }

    fn push(&mut self, st: Step) {
        let c = st.client as usize;
        match st.op.cat() {
            Cat::Ctor | Cat::Deriv => self.pool[c] += 1,
            Cat::Fault => {
                if matches!(
                    st.op,
                    OpKind::BadChar | OpKind::BadRange | OpKind::StrBad | OpKind::LoopOverflow | OpKind::Reentrant
                ) {
                    self.pool[c] += 1
                }
            }
            _ => {}
        }
        self.steps.push(st);
    }

    fn last(&self, c: usize) -> u32 {
        self.pool[c] - 1
    }

    fn gen_op(&mut self, c: usize, op: OpKind) {
        use OpKind::*;
        let cl = c as u8;
        let st = match op {
            ReNone | All | AllChar | Eps => Step::new(cl, op),
            Char => Step::new(cl, op).a(self.single_code(), 0, 0),
            Range => {
                let a = self.rng.below(self.ncells as u64) as u32;
                let b = if self.rng.chance(1, 3) {
                    a
                } else {
                    self.rng.below(self.ncells as u64) as u32
                };
                Step::new(cl, op).a(a, b, 0)
            }
            SmtRange => {
                let (s, t) = if self.rng.chance(3, 4) {
                    (vec![self.single_code()], vec![self.single_code()])
                } else {
                    (self.cstr(), self.cstr())
                };
                Step::new(cl, op).s(s).t(t)
            }
            Str => Step::new(cl, op).s(self.cstr()),
            Concat | Union | Inter | Diff | IncludedIn | EqCheck => {
                let a = self.h(c);
                let b = self.h(c);
                Step::new(cl, op).a(a, b, 0)
            }
            ConcatList | UnionList | InterList => Step::new(cl, op).l(self.hlist(c, 4)),
            DiffList => {
                let a = self.h(c);
                Step::new(cl, op).a(a, 0, 0).l(self.hlist(c, 3))
            }
            Compl | Star | Plus | Opt | IsEmpty | GetString | ClassInfo | Compile | ComplTwice
            | Reissue | Closure => Step::new(cl, op).a(self.h(c), self.rng.u32(), 0),
            Exp | LoopInf => {
                let h = self.h(c);
                let k = self.count();
                Step::new(cl, op).a(h, k, 0)
            }
            Loop => {
                let h = self.h(c);
                let i = self.count();
                let j = if self.rng.chance(1, 12) {
                    self.count() // may be < i: empty by SMT-LIB
                } else {
                    i.saturating_add(self.count())
                };
                Step::new(cl, op).a(h, i, j)
            }
            CharDeriv | StartChar => Step::new(cl, op).a(self.h(c), self.point_code(), 0),
            StrDeriv => Step::new(cl, op).a(self.h(c), 0, 0).s(self.qstr()),
            ClassDeriv | ClassDerivUnchecked | StartClass => {
                let k = if self.nsingles >= 17 && self.rng.chance(1, 2) {
                    self.rng.below(2 * self.nsingles as u64 + 4) as u32
                } else {
                    self.rng.below(12) as u32
                };
                Step::new(cl, op).a(self.h(c), k, 0)
            }
            SetDeriv | SetDerivUnchecked => {
                let h = self.h(c);
                let a = self.point_code();
                let b = match self.rng.below(4) {
                    0 => a,
                    1 => a + 1 + self.rng.below(3) as u32,
                    _ => self.point_code(),
                };
                Step::new(cl, op).a(h, a, b)
            }
            StrInRe => Step::new(cl, op).a(self.h(c), self.rng.u32(), 0).s(self.qstr()),
            TryCompile => {
                Step::new(cl, op).a(self.h(c), self.rng.below(8) as u32, self.rng.below(12) as u32)
            }
            Replace | ReplaceAll => {
                let h = self.h(c);
                // the library's search is quadratic in the subject: long subjects only now and then
                let mut s = self.qstr();
                if s.len() > 16 && !self.rng.chance(1, 6) {
                    s.truncate(6 + self.rng.below(10) as usize);
                }
                let t = if self.rng.chance(1, 4) { self.qstr() } else { self.cstr() };
                Step::new(cl, op).a(h, self.rng.u32(), 0).s(s).t(t)
            }
            Ballast => {
                // unrelated terms that only push the ids up: usually a few hundred, now and then enough
                // to cross 2^16
                let n = match self.rng.below(40) {
                    0..=3 => 60_000 + self.rng.below(8_000) as u32,
                    4 => 20_000 + self.rng.below(20_000) as u32,
                    5..=10 => 1_000 + self.rng.below(4_000) as u32,
                    _ => 20 + self.rng.below(400) as u32,
                };
                Step::new(cl, op).a(n, self.rng.below(0x20000) as u32, 0)
            }
            BadChar => Step::new(cl, op).a(self.rng.below(0x1000) as u32, 0, 0),
            BadRange => {
                let a = self.rng.below(self.ncells as u64) as u32;
                let b = self.rng.below(self.ncells as u64) as u32;
                Step::new(cl, op).a(a, b, 0)
            }
            StrBad => {
                let mut s = self.cstr();
                let bad = BAD_BASE + self.rng.below(0x1000) as u32;
                let pos = self.rng.below(s.len() as u64 + 1) as usize;
                s.insert(pos, bad);
                Step::new(cl, op).s(s)
            }
            LoopOverflow => Step::new(cl, op).a(self.h(c), self.rng.below(4) as u32, 0),
            Reentrant => {
                let l = self.hlist(c, 3);
                Step::new(cl, op).a(self.rng.below(8) as u32, 0, 0).l(l).s(self.cstr())
            }
            Evict => Step::new(cl, op).a(self.rng.below(3) as u32, 2 + self.rng.below(5) as u32, 0),
            IterAbandon => Step::new(cl, op).a(self.h(c), 1 + self.rng.below(6) as u32, 0),
            CompileAbort => Step::new(cl, op).a(self.h(c), 1 + self.rng.below(4) as u32, 0),
            TrapCall => Step::new(cl, op).a(self.h(c), self.rng.below(8) as u32, self.single_code()).s(self.cstr()),
        };
        self.push(st);
    }

    /// multi-step idioms that steer towards the corners the properties name
    fn idiom(&mut self, c: usize) {
        use OpKind::*;
        let cl = c as u8;
        let pick = if self.force_many { 10 } else { self.rng.below(self.idiom_kinds) };
        match pick {
            0 => {
                // intersection of two disjoint atoms, then a loop over the (semantically) empty body
                let a = self.single_code();
                let b = a + 1;
                self.push(Step::new(cl, Char).a(a, 0, 0));
                let x = self.last(c);
                self.push(Step::new(cl, Char).a(b, 0, 0));
                let y = self.last(c);
                self.push(Step::new(cl, Inter).a(x, y, 0));
                let e = self.last(c);
                let op = [Star, Plus, Opt, Loop][self.rng.below(4) as usize];
                let i = self.rng.below(3) as u32;
                let j = i + self.rng.below(3) as u32;
                self.push(Step::new(cl, op).a(e, i, j));
            }
            1 => {
                // two different strings intersected
                let s = self.cstr();
                let mut t = s.clone();
                if t.is_empty() || self.rng.chance(1, 2) {
                    t.push(self.single_code());
                } else {
                    let i = self.rng.below(t.len() as u64) as usize;
                    t[i] += 1;
                }
                self.push(Step::new(cl, Str).s(s));
                let x = self.last(c);
                self.push(Step::new(cl, Str).s(t));
                let y = self.last(c);
                self.push(Step::new(cl, Inter).a(x, y, 0));
            }
            2 => {
                // complement of a language that is universal only semantically:
                // (cells 0..m | cells m+1..k-1)* complemented
                // ... or universal but for one cell (a hole of one cell, often the first or last)
                let k = self.ncells;
                let m = self.rng.below(k as u64) as u32;
                let hole = self.rng.chance(1, 2);
                let (hi1, lo2) = if hole {
                    let h = match self.rng.below(4) {
                        0 => 0,
                        1 => k - 1,
                        _ => m,
                    };
                    if h == 0 {
                        // everything but cell 0: a single range
                        (u32::MAX, 1.min(k - 1))
                    } else if h == k - 1 {
                        (k.saturating_sub(2), u32::MAX)
                    } else {
                        (h - 1, h + 1)
                    }
                } else {
                    (m, (m + 1).min(k - 1))
                };
                if hi1 != u32::MAX {
                    self.push(Step::new(cl, Range).a(0, hi1, 0));
                } else {
                    self.push(Step::new(cl, ReNone));
                }
                let x = self.last(c);
                if lo2 != u32::MAX {
                    self.push(Step::new(cl, Range).a(lo2, k - 1, 0));
                } else {
                    self.push(Step::new(cl, ReNone));
                }
                let y = self.last(c);
                self.push(Step::new(cl, Union).a(x, y, 0));
                let u = self.last(c);
                self.push(Step::new(cl, Star).a(u, 0, 0));
                let s = self.last(c);
                self.push(Step::new(cl, Compl).a(s, 0, 0));
            }
            3 => {
                // e & ~e' where e' is e re-built: Diff(h, h) and Inter(h, Compl h)
                let h = self.h(c);
                if self.rng.chance(1, 2) {
                    self.push(Step::new(cl, Diff).a(h, h, 0));
                } else {
                    self.push(Step::new(cl, Compl).a(h, 0, 0));
                    let n = self.last(c);
                    let op = if self.rng.chance(1, 2) { Inter } else { Union };
                    self.push(Step::new(cl, op).a(h, n, 0));
                }
            }
            4 | 5 => {
                // two "simple patterns" P, Q where Q widens P; then inclusion query and union
                let n = 1 + self.rng.below(4) as usize;
                let mut p: Vec<u32> = Vec::new();
                let mut q: Vec<u32> = Vec::new();
                for _ in 0..n {
                    let kind = self.rng.below(6);
                    let (ph, lo, hi) = match kind {
                        0 | 1 => {
                            let a = self.single_code();
                            self.push(Step::new(cl, Char).a(a, 0, 0));
                            (self.last(c), u32::MAX, u32::MAX)
                        }
                        2 | 3 => {
                            let a = self.rng.below(self.ncells as u64) as u32;
                            let b = a + self.rng.below(2) as u32;
                            self.push(Step::new(cl, Range).a(a, b, 0));
                            (self.last(c), a, b)
                        }
                        4 if self.rng.chance(1, 2) => {
                            // a small character class written as a union of characters created in
                            // a random order (so id order and character order differ)
                            let mut hs: Vec<u32> = Vec::new();
                            let mut cellsv: Vec<u32> = Vec::new();
                            for _ in 0..(2 + self.rng.below(2)) {
                                let a = self.single_code();
                                self.push(Step::new(cl, Char).a(a, 0, 0));
                                hs.push(self.last(c));
                                if !self.single_cells.is_empty() {
                                    cellsv.push(self.single_cells[a as usize % self.single_cells.len()]);
                                }
                            }
                            self.push(Step::new(cl, UnionList).l(hs));
                            // the widened counterpart spans the first and the last created character
                            // (which need not include the ones created in between)
                            let (lo, hi) = match (cellsv.first(), cellsv.last()) {
                                (Some(&x), Some(&y)) => (x.min(y), x.max(y)),
                                _ => (0, self.ncells - 1),
                            };
                            (self.last(c), lo, hi)
                        }
                        4 => {
                            self.push(Step::new(cl, All));
                            (self.last(c), u32::MAX, u32::MAX)
                        }
                        _ => {
                            let a = self.rng.below(self.ncells as u64) as u32;
                            self.push(Step::new(cl, Range).a(a, a, 0));
                            let r = self.last(c);
                            let op = [Star, Plus, Opt][self.rng.below(3) as usize];
                            self.push(Step::new(cl, op).a(r, 0, 0));
                            (self.last(c), u32::MAX, u32::MAX)
                        }
                    };
                    p.push(ph);
                    // Q's atom: same, widened, Sigma, Sigma*, or dropped / extra Sigma* inserted
                    match self.rng.below(10) {
                        0..=4 => q.push(ph),
                        5 | 6 => {
                            if lo != u32::MAX {
                                let exact = self.rng.chance(1, 2);
                                let a = if exact { lo } else { lo.saturating_sub(self.rng.below(2) as u32) };
                                let b = if exact { hi } else { hi + self.rng.below(2) as u32 };
                                self.push(Step::new(cl, Range).a(a.min(b), b, 0));
                            } else {
                                self.push(Step::new(cl, AllChar));
                            }
                            q.push(self.last(c));
                        }
                        7 => {
                            self.push(Step::new(cl, AllChar));
                            q.push(self.last(c));
                        }
                        8 => {
                            self.push(Step::new(cl, All));
                            q.push(self.last(c));
                        }
                        _ => {
                            self.push(Step::new(cl, All));
                            let a = self.last(c);
                            q.push(a);
                            q.push(ph);
                        }
                    }
                }
                self.push(Step::new(cl, ConcatList).l(p));
                let ph = self.last(c);
                self.push(Step::new(cl, ConcatList).l(q));
                let qh = self.last(c);
                self.push(Step::new(cl, IncludedIn).a(ph, qh, 0));
                self.push(Step::new(cl, IncludedIn).a(qh, ph, 0));
                if self.rng.chance(2, 3) {
                    let op = if self.rng.chance(1, 2) { Union } else { Inter };
                    self.push(Step::new(cl, op).a(ph, qh, 0));
                }
            }
            6 => {
                // Sigma & "ab"-like: intersection of a short-length language with a string
                let s = self.cstr();
                self.push(Step::new(cl, Str).s(s));
                let x = self.last(c);
                self.push(Step::new(cl, AllChar));
                let a = self.last(c);
                let k = self.rng.below(3) as u32;
                self.push(Step::new(cl, Exp).a(a, k, 0));
                let y = self.last(c);
                self.push(Step::new(cl, Inter).a(y, x, 0));
                let e = self.last(c);
                let code = self.point_code();
                self.push(Step::new(cl, StartChar).a(e, code, 0));
            }
            7 => {
                // same construction issued twice with something in between
                let a = self.h(c);
                let b = self.h(c);
                let op = [Concat, Union, Inter, Diff][self.rng.below(4) as usize];
                self.push(Step::new(cl, op).a(a, b, 0));
                let first = self.last(c);
                let s = self.cstr();
                self.push(Step::new(cl, Str).s(s));
                self.push(Step::new(cl, op).a(a, b, 0));
                let second = self.last(c);
                self.push(Step::new(cl, EqCheck).a(first, second, 0));
            }
            8 => {
                // nested loops (the flattening test relates three of the four bounds)
                let h = if self.rng.chance(1, 2) {
                    let a = self.single_code();
                    self.push(Step::new(cl, Char).a(a, 0, 0));
                    self.last(c)
                } else {
                    self.h(c)
                };
                let wide = self.rng.chance(1, 2);
                let (i, j) = if wide {
                    (self.rng.below(9) as u32, self.rng.below(5) as u32)
                } else {
                    (self.rng.below(3) as u32, self.rng.below(3) as u32)
                };
                self.push(Step::new(cl, Loop).a(h, i, i + j));
                let x = self.last(c);
                let (k, l) = if wide {
                    (self.rng.below(5) as u32, self.rng.below(4) as u32)
                } else {
                    (self.rng.below(3) as u32, self.rng.below(3) as u32)
                };
                if self.rng.chance(1, 3) {
                    self.push(Step::new(cl, LoopInf).a(x, k, 0));
                } else {
                    self.push(Step::new(cl, Loop).a(x, k, k + l));
                }
                let y = self.last(c);
                if self.rng.chance(1, 2) {
                    self.push(Step::new(cl, Concat).a(h, y, 0));
                } else {
                    self.push(Step::new(cl, Concat).a(x, y, 0));
                }
            }
            14 => {
                // two different constructions of the same language (hash-consing makes terms unique,
                // not languages), then combined through complement / inclusion / union / difference
                let w = {
                    let mut w = self.cstr();
                    if w.is_empty() || w.len() > 3 {
                        w = vec![self.single_code(), self.single_code()];
                    }
                    w
                };
                let k = 2 + self.rng.below(2) as u32;
                self.push(Step::new(cl, Str).s(w.clone()));
                let base = self.last(c);
                let (x, y) = match self.rng.below(6) {
                    5 => {
                        // two different terms with the same *printed* form: (ab)^2 and a.b^2, reached
                        // behind different first characters of one union
                        let a = self.single_code();
                        let b = a + 1;
                        self.push(Step::new(cl, Str).s(vec![a, b]));
                        let ab = self.last(c);
                        self.push(Step::new(cl, Exp).a(ab, k, 0));
                        let x = self.last(c);
                        let mut abb = vec![a];
                        for _ in 0..k {
                            abb.push(b);
                        }
                        self.push(Step::new(cl, Str).s(abb));
                        let y = self.last(c);
                        let (p1, p2) = (a + 2, a + 3);
                        self.push(Step::new(cl, Char).a(p1, 0, 0));
                        let h1 = self.last(c);
                        self.push(Step::new(cl, Char).a(p2, 0, 0));
                        let h2 = self.last(c);
                        self.push(Step::new(cl, Concat).a(h1, x, 0));
                        let l = self.last(c);
                        self.push(Step::new(cl, Concat).a(h2, y, 0));
                        let r = self.last(c);
                        self.push(Step::new(cl, Union).a(l, r, 0));
                        let u = self.last(c);
                        let op = [Compile, Closure, TryCompile, IsEmpty][self.rng.below(4) as usize];
                        self.push(Step::new(cl, op).a(u, 2, 0));
                        self.push(Step::new(cl, Compile).a(u, 0, 0));
                        (x, y)
                    }
                    0 => {
                        // str(w)^k  vs  str(w^k)
                        self.push(Step::new(cl, Exp).a(base, k, 0));
                        let x = self.last(c);
                        let mut ww = Vec::new();
                        for _ in 0..k {
                            ww.extend_from_slice(&w);
                        }
                        self.push(Step::new(cl, Str).s(ww));
                        (x, self.last(c))
                    }
                    1 => {
                        // concat(x, x)  vs  str(ww)
                        self.push(Step::new(cl, Concat).a(base, base, 0));
                        let x = self.last(c);
                        let mut ww = w.clone();
                        ww.extend_from_slice(&w);
                        self.push(Step::new(cl, Str).s(ww));
                        (x, self.last(c))
                    }
                    2 => {
                        // opt(e)  vs  union(eps, e)
                        let e = self.h(c);
                        self.push(Step::new(cl, Opt).a(e, 0, 0));
                        let x = self.last(c);
                        self.push(Step::new(cl, Union).a(1, e, 0));
                        (x, self.last(c))
                    }
                    3 => {
                        // loop(e,1,2)  vs  union(e, e.e)
                        let e = self.h(c);
                        self.push(Step::new(cl, Loop).a(e, 1, 2));
                        let x = self.last(c);
                        self.push(Step::new(cl, Concat).a(e, e, 0));
                        let ee = self.last(c);
                        self.push(Step::new(cl, Union).a(e, ee, 0));
                        (x, self.last(c))
                    }
                    _ => {
                        // plus(e)  vs  concat(e, star(e))
                        let e = self.h(c);
                        self.push(Step::new(cl, Plus).a(e, 0, 0));
                        let x = self.last(c);
                        self.push(Step::new(cl, Star).a(e, 0, 0));
                        let se = self.last(c);
                        self.push(Step::new(cl, Concat).a(e, se, 0));
                        (x, self.last(c))
                    }
                };
                self.push(Step::new(cl, EqCheck).a(x, y, 0));
                self.push(Step::new(cl, IncludedIn).a(x, y, 0));
                if self.rng.chance(1, 2) {
                    // a literal with powers nested through a concatenation: ((w^k).c)^2
                    let ch = self.single_code();
                    self.push(Step::new(cl, Char).a(ch, 0, 0));
                    let hc = self.last(c);
                    self.push(Step::new(cl, Concat).a(x, hc, 0));
                    let xc = self.last(c);
                    self.push(Step::new(cl, Exp).a(xc, 2, 0));
                    let lit = self.last(c);
                    let r9 = self.rng.u32();
                    self.push(Step::new(cl, GetString).a(lit, r9, 0));
                    self.push(Step::new(cl, IsEmpty).a(lit, r9, 0));
                    let qq = self.qstr();
                    self.push(Step::new(cl, StrInRe).a(lit, r9, 0).s(qq));
                    // ... in front of a tail and intersected with "starts with the first letter":
                    // the first character of the nested power
                    if !self.single_cells.is_empty() {
                        let qa = self.single_cells[w[0] as usize % self.single_cells.len()] * 3;
                        let tail = self.single_code();
                        self.push(Step::new(cl, Char).a(tail, 0, 0));
                        let ht = self.last(c);
                        self.push(Step::new(cl, Concat).a(lit, ht, 0));
                        let lt = self.last(c);
                        self.push(Step::new(cl, Char).a(w[0], 0, 0));
                        let hf = self.last(c);
                        self.push(Step::new(cl, All));
                        let fl = self.last(c);
                        self.push(Step::new(cl, Concat).a(hf, fl, 0));
                        let starts = self.last(c);
                        self.push(Step::new(cl, Inter).a(lit, starts, 0));
                        let li = self.last(c);
                        for e in [lt, li] {
                            self.push(Step::new(cl, StartChar).a(e, qa, 0));
                            let kk = self.rng.below(3) as u32;
                            self.push(Step::new(cl, StartClass).a(e, kk, 0));
                        }
                        self.push(Step::new(cl, CharDeriv).a(lit, qa, 0));
                    }
                }
                // combined directly: intersection, union, difference of the two spellings
                let op = [Inter, Inter, Union, Diff][self.rng.below(4) as usize];
                self.push(Step::new(cl, op).a(x, y, 0));
                let xy = self.last(c);
                let r0 = self.rng.u32();
                self.push(Step::new(cl, IsEmpty).a(xy, r0, 0));
                let q0 = self.qstr();
                self.push(Step::new(cl, StrInRe).a(xy, r0, 0).s(q0));
                if self.mgr[c] == 0 {
                    // ... and as a pattern for replace, with some other alternative next to it
                    let other = self.h(c);
                    self.push(Step::new(cl, Union).a(xy, other, 0));
                    let pat = self.last(c);
                    // a subject that contains w^k (spelled with the constructor characters)
                    let mut subj: Vec<u32> = Vec::new();
                    for _ in 0..self.rng.below(3) {
                        subj.push(self.point_code());
                    }
                    if !self.single_cells.is_empty() {
                        for _ in 0..k {
                            for &ch in &w {
                                subj.push(self.single_cells[ch as usize % self.single_cells.len()] * 3);
                            }
                        }
                    }
                    for _ in 0..self.rng.below(3) {
                        subj.push(self.point_code());
                    }
                    let t = self.cstr();
                    let rop = if self.rng.chance(1, 2) { Replace } else { ReplaceAll };
                    self.push(Step::new(cl, rop).a(pat, r0, 0).s(subj.clone()).t(t.clone()));
                    self.push(Step::new(cl, rop).a(xy, r0, 0).s(subj.clone()).t(t.clone()));
                    // the two spellings meet only inside a derivative: (p.x) & (p.y + other)
                    let pc = self.single_code();
                    self.push(Step::new(cl, Char).a(pc, 0, 0));
                    let ph = self.last(c);
                    self.push(Step::new(cl, Concat).a(ph, x, 0));
                    let px = self.last(c);
                    self.push(Step::new(cl, Concat).a(ph, y, 0));
                    let py = self.last(c);
                    self.push(Step::new(cl, Union).a(py, other, 0));
                    let pu = self.last(c);
                    self.push(Step::new(cl, Inter).a(px, pu, 0));
                    let deep = self.last(c);
                    let mut subj2: Vec<u32> = Vec::new();
                    for _ in 0..self.rng.below(3) {
                        subj2.push(self.point_code());
                    }
                    if !self.single_cells.is_empty() {
                        subj2.push(self.single_cells[pc as usize % self.single_cells.len()] * 3);
                    }
                    subj2.extend_from_slice(&subj);
                    self.push(Step::new(cl, rop).a(deep, r0, 0).s(subj2.clone()).t(t));
                    self.push(Step::new(cl, StrInRe).a(deep, r0, 0).s(subj2));
                }
                self.push(Step::new(cl, Compl).a(y, 0, 0));
                let ny = self.last(c);
                self.push(Step::new(cl, IncludedIn).a(x, ny, 0));
                self.push(Step::new(cl, Union).a(x, ny, 0));
                self.push(Step::new(cl, Inter).a(x, ny, 0));
                let e = self.last(c);
                self.push(Step::new(cl, IsEmpty).a(e, 0, 0));
                self.push(Step::new(cl, Compl).a(x, 0, 0));
                let nx = self.last(c);
                self.push(Step::new(cl, IncludedIn).a(y, nx, 0));
                self.push(Step::new(cl, Union).a(y, nx, 0));
            }
            15 => {
                // a long subject on which every attempt fails late: x^n z y w  against  x* y
                let x = self.single_code();
                let y = x + 1;
                let z = x + 2;
                self.push(Step::new(cl, Char).a(x, 0, 0));
                let hx = self.last(c);
                self.push(Step::new(cl, Char).a(y, 0, 0));
                let hy = self.last(c);
                let op = if self.rng.chance(1, 2) { Star } else { Plus };
                self.push(Step::new(cl, op).a(hx, 0, 0));
                let hs = self.last(c);
                self.push(Step::new(cl, Concat).a(hs, hy, 0));
                let pat = self.last(c);
                let n = 60 + self.rng.below(200) as usize;
                // query codes: low point of the cell of a singleton = the character itself; the
                // interpreter maps constructor codes and query codes differently, so spell the
                // subject with the constructor characters through `t` (replacement) is not possible:
                // subjects are query strings, so use query codes of random cells for the filler and
                // rely on x,y,z being cells too (any cell works for the shape "long run, then miss")
                let run = self.point_code();
                let miss = self.point_code();
                let hit = self.point_code();
                let mut s: Vec<u32> = vec![run; n];
                s.push(miss);
                s.push(hit);
                s.push(miss);
                let _ = z;
                // pattern over the same cells as the subject: range(cell(run))* . range(cell(hit))
                self.push(Step::new(cl, Range).a(run / 3, run / 3, 0));
                let rr = self.last(c);
                self.push(Step::new(cl, Star).a(rr, 0, 0));
                let rs = self.last(c);
                self.push(Step::new(cl, Range).a(hit / 3, hit / 3, 0));
                let rh = self.last(c);
                self.push(Step::new(cl, Concat).a(rs, rh, 0));
                let pat2 = self.last(c);
                let t = self.cstr();
                let op = if self.rng.chance(1, 2) { Replace } else { ReplaceAll };
                let which = if self.rng.chance(3, 4) { pat2 } else { pat };
                let salt = self.rng.u32();
                self.push(Step::new(cl, op).a(which, salt, 0).s(s.clone()).t(t));
                self.push(Step::new(cl, StrInRe).a(which, salt, 0).s(s));
            }
            30 if self.single_cells.len() >= 3 && self.rng.chance(1, 3) => {
                // a language that is empty only semantically (Z) sits behind a letter, next to a sibling
                // that reaches epsilon later: x.((a.Z) + b) is asked first, then a.Z itself (its
                // derivative is exactly the hash-consed Z the first search walked through), in either order
                let ns = self.single_cells.len() as u32;
                let a = self.single_code() % ns;
                let b = (a + 1) % ns;
                let x = if self.rng.chance(1, 2) { (a + 2) % ns } else { a };
                let pc = |g: &Self, code: u32| g.single_cells[code as usize] * 3;
                let z = match self.rng.below(3) {
                    0 => {
                        self.push(Step::new(cl, AllChar));
                        let s = self.last(c);
                        self.push(Step::new(cl, Str).s(vec![a, b]));
                        let t = self.last(c);
                        self.push(Step::new(cl, Inter).a(s, t, 0));
                        self.last(c)
                    }
                    1 => {
                        self.push(Step::new(cl, Str).s(vec![a, b]));
                        let s = self.last(c);
                        self.push(Step::new(cl, Char).a(a, 0, 0));
                        let t = self.last(c);
                        self.push(Step::new(cl, Plus).a(t, 0, 0));
                        let t = self.last(c);
                        self.push(Step::new(cl, Inter).a(t, s, 0));
                        self.last(c)
                    }
                    _ => {
                        self.push(Step::new(cl, Str).s(vec![b, a]));
                        let s = self.last(c);
                        self.push(Step::new(cl, Str).s(vec![b, b]));
                        let t = self.last(c);
                        self.push(Step::new(cl, Compl).a(t, 0, 0));
                        let nt = self.last(c);
                        self.push(Step::new(cl, Str).s(vec![b]));
                        let u = self.last(c);
                        self.push(Step::new(cl, AllChar));
                        let d = self.last(c);
                        self.push(Step::new(cl, Concat).a(u, d, 0));
                        let bd = self.last(c);
                        self.push(Step::new(cl, Diff).a(bd, s, 0));
                        let w = self.last(c);
                        self.push(Step::new(cl, Str).s(vec![b, a]));
                        let s2 = self.last(c);
                        self.push(Step::new(cl, Inter).a(nt, s2, 0));
                        let _ = self.last(c);
                        self.push(Step::new(cl, Inter).a(w, s, 0));
                        self.last(c)
                    }
                };
                self.push(Step::new(cl, Char).a(a, 0, 0));
                let ha = self.last(c);
                self.push(Step::new(cl, Concat).a(ha, z, 0));
                let az = self.last(c);
                self.push(Step::new(cl, Char).a(b, 0, 0));
                let hb = self.last(c);
                let u = if self.rng.chance(1, 2) {
                    self.push(Step::new(cl, Union).a(az, hb, 0));
                    self.last(c)
                } else {
                    self.push(Step::new(cl, Str).s(vec![b, a]));
                    let hb2 = self.last(c);
                    self.push(Step::new(cl, Union).a(hb2, az, 0));
                    self.last(c)
                };
                self.push(Step::new(cl, Char).a(x, 0, 0));
                let hx = self.last(c);
                self.push(Step::new(cl, Concat).a(hx, u, 0));
                let xu = self.last(c);
                let (qx, qa) = (pc(self, x), pc(self, a));
                let first_outer = self.rng.chance(3, 4);
                if first_outer {
                    self.push(Step::new(cl, StartChar).a(xu, qx, 0));
                }
                self.push(Step::new(cl, StartChar).a(az, qa, 0));
                if !first_outer {
                    self.push(Step::new(cl, StartChar).a(xu, qx, 0));
                }
                let r = self.rng.u32();
                self.push(Step::new(cl, IsEmpty).a(z, r, 0));
                self.push(Step::new(cl, IsEmpty).a(az, r, 0));
                self.push(Step::new(cl, StartChar).a(u, qa, 0));
                self.push(Step::new(cl, StartChar).a(xu, qx, 0));
            }
            27..=30 => {
                // assorted small shapes (each one a family that a seeded change needed)
                let qcode = |g: &Self, code: u32| -> u32 {
                    if g.single_cells.is_empty() { 0 } else { g.single_cells[code as usize % g.single_cells.len()] * 3 }
                };
                match self.rng.below(16) {
                    15 => {
                        // an intersection with a concatenation whose (non-nullable) head is the
                        // complement of a nullable language, derived by a character outside every
                        // interval class of that head
                        let a = self.single_code();
                        let b = self.single_code();
                        self.push(Step::new(cl, Char).a(a, 0, 0));
                        let ha = self.last(c);
                        let nop = [Star, Opt, Plus][self.rng.below(3) as usize];
                        self.push(Step::new(cl, nop).a(ha, 0, 0));
                        let mut n = self.last(c);
                        if nop == Plus {
                            self.push(Step::new(cl, Opt).a(n, 0, 0));
                            n = self.last(c);
                        }
                        self.push(Step::new(cl, Compl).a(n, 0, 0));
                        let head = self.last(c);
                        self.push(Step::new(cl, Char).a(b, 0, 0));
                        let hb = self.last(c);
                        self.push(Step::new(cl, Concat).a(head, hb, 0));
                        let cat = self.last(c);
                        let k = self.ncells;
                        let lo = self.rng.below(k as u64) as u32;
                        let hi = lo + self.rng.below((k - lo) as u64) as u32;
                        self.push(Step::new(cl, Range).a(lo, hi, 0));
                        let rg = self.last(c);
                        let other = match self.rng.below(3) {
                            0 => {
                                self.push(Step::new(cl, Plus).a(rg, 0, 0));
                                self.last(c)
                            }
                            1 => {
                                self.push(Step::new(cl, Plus).a(2, 0, 0));
                                self.last(c)
                            }
                            _ => self.h(c),
                        };
                        let (l, r) = if self.rng.chance(1, 2) { (cat, other) } else { (other, cat) };
                        self.push(Step::new(cl, Inter).a(l, r, 0));
                        let e = self.last(c);
                        let qb = qcode(self, b);
                        let salt = self.rng.u32();
                        for _ in 0..3 {
                            let z = if self.rng.chance(1, 2) { lo * 3 + self.rng.below(3) as u32 } else { self.point_code() };
                            self.push(Step::new(cl, CharDeriv).a(e, z, 0));
                            self.push(Step::new(cl, StrInRe).a(e, salt, 0).s(vec![z, qb]));
                            self.push(Step::new(cl, StrDeriv).a(e, 0, 0).s(vec![z, qb]));
                        }
                        self.push(Step::new(cl, ClassInfo).a(e, 0, 0));
                    }
                    14 => {
                        // an intersection without a character-class operand as an element of a
                        // concatenation, against the same concatenation with Sigma at that position
                        let a = self.single_code();
                        let b = a + 1;
                        self.push(Step::new(cl, Char).a(a, 0, 0));
                        let ha = self.last(c);
                        self.push(Step::new(cl, Char).a(b, 0, 0));
                        let hb = self.last(c);
                        let x = match self.rng.below(3) {
                            0 => {
                                self.push(Step::new(cl, Star).a(ha, 0, 0));
                                let st = self.last(c);
                                self.push(Step::new(cl, Plus).a(2, 0, 0));
                                let sp = self.last(c);
                                self.push(Step::new(cl, Inter).a(st, sp, 0));
                                self.last(c)
                            }
                            1 => {
                                self.push(Step::new(cl, Plus).a(ha, 0, 0));
                                let st = self.last(c);
                                self.push(Step::new(cl, Str).s(vec![b, b]));
                                let w = self.last(c);
                                self.push(Step::new(cl, Compl).a(w, 0, 0));
                                let nw = self.last(c);
                                self.push(Step::new(cl, Inter).a(st, nw, 0));
                                self.last(c)
                            }
                            _ => {
                                let h1 = self.h(c);
                                let h2 = self.h(c);
                                self.push(Step::new(cl, Inter).a(h1, h2, 0));
                                self.last(c)
                            }
                        };
                        let around = self.rng.chance(1, 2);
                        let mk = |g: &mut Self, mid: u32| -> u32 {
                            if around {
                                g.push(Step::new(cl, ConcatList).l(vec![hb, mid, hb]));
                            } else {
                                g.push(Step::new(cl, Concat).a(mid, hb, 0));
                            }
                            g.last(c)
                        };
                        let r = mk(self, x);
                        let s_ = mk(self, 2);
                        self.push(Step::new(cl, IncludedIn).a(r, s_, 0));
                        self.push(Step::new(cl, Union).a(r, s_, 0));
                        let u = self.last(c);
                        let (qa, qb) = (qcode(self, a), qcode(self, b));
                        let mut w = vec![qa, qa, qb];
                        if around {
                            w.insert(0, qb);
                        }
                        let salt = self.rng.u32();
                        self.push(Step::new(cl, StrInRe).a(u, salt, 0).s(w));
                        self.push(Step::new(cl, UnionList).l(vec![s_, r]));
                    }
                    13 => {
                        // a union U of three to five members, then a later term z, then a smaller
                        // union of U's oldest member and z; both complemented and united
                        let n = 3 + self.rng.below(3) as usize;
                        let first = self.single_code();
                        let ns = self.nsingles.max(1);
                        let mut ms: Vec<u32> = Vec::new();
                        for i in 0..n as u32 {
                            self.push(Step::new(cl, Char).a((first + i) % ns, 0, 0));
                            ms.push(self.last(c));
                        }
                        self.push(Step::new(cl, UnionList).l(ms.clone()));
                        let big = self.last(c);
                        // z: a character other clients are likely to have created already on a
                        // shared manager (then the id order differs from the isolated replica),
                        // or a term nobody has
                        let zq: Vec<u32>;
                        if self.rng.chance(1, 2) {
                            let zc = (first + n as u32) % ns;
                            self.push(Step::new(cl, Char).a(zc, 0, 0));
                            zq = vec![qcode(self, zc)];
                        } else {
                            let w = vec![(first + n as u32) % ns, first, self.single_code()];
                            self.push(Step::new(cl, Str).s(w.clone()));
                            zq = w.iter().map(|&ch| qcode(self, ch)).collect();
                        }
                        let z = self.last(c);
                        self.push(Step::new(cl, Union).a(ms[0], z, 0));
                        let small = self.last(c);
                        self.push(Step::new(cl, Compl).a(big, 0, 0));
                        let nbig = self.last(c);
                        self.push(Step::new(cl, Compl).a(small, 0, 0));
                        let nsmall = self.last(c);
                        self.push(Step::new(cl, IncludedIn).a(nbig, nsmall, 0));
                        self.push(Step::new(cl, IncludedIn).a(small, big, 0));
                        let (l, r) = if self.rng.chance(1, 2) { (nsmall, nbig) } else { (nbig, nsmall) };
                        self.push(Step::new(cl, Union).a(l, r, 0));
                        let u = self.last(c);
                        let salt = self.rng.u32();
                        self.push(Step::new(cl, StrInRe).a(u, salt, 0).s(zq));
                        self.push(Step::new(cl, Inter).a(big, small, 0));
                        self.push(Step::new(cl, Union).a(big, small, 0));
                    }
                    12 => {
                        // (x^[a,b])^[c,d] where the counts leave a gap right after c*b (or just
                        // do not): queries that isolate the counts around the gap
                        let k = self.ncells;
                        let lo = self.rng.below(k as u64) as u32;
                        self.push(Step::new(cl, Range).a(lo, lo, 0));
                        let x = self.last(c);
                        let a = 3 + self.rng.below(7) as u32;
                        let gap = 1 + self.rng.below(4) as u32;
                        let b = a + gap;
                        let c0 = (a - 1) / gap;
                        let cc = (c0 + self.rng.below(3) as u32).saturating_sub(1).max(1);
                        let d = cc + 1 + self.rng.below(2) as u32;
                        self.push(Step::new(cl, Loop).a(x, a, b));
                        let inner = self.last(c);
                        self.push(Step::new(cl, Loop).a(inner, cc, d));
                        let l = self.last(c);
                        let pc = lo * 3 + 1;
                        let salt = self.rng.u32();
                        for m in [cc * b, cc * b + 1, (cc + 1) * a - 1, (cc + 1) * a] {
                            if m == 0 || m > 70 {
                                continue;
                            }
                            self.push(Step::new(cl, Exp).a(x, m, 0));
                            let xm = self.last(c);
                            match self.rng.below(4) {
                                0 => {
                                    self.push(Step::new(cl, Inter).a(l, xm, 0));
                                    let e = self.last(c);
                                    self.push(Step::new(cl, IsEmpty).a(e, 0, 0));
                                    self.push(Step::new(cl, GetString).a(e, 0, 0));
                                }
                                1 => {
                                    self.push(Step::new(cl, Diff).a(xm, l, 0));
                                    let e = self.last(c);
                                    self.push(Step::new(cl, IsEmpty).a(e, 0, 0));
                                    self.push(Step::new(cl, GetString).a(e, 0, 0));
                                }
                                2 => {
                                    self.push(Step::new(cl, IncludedIn).a(xm, l, 0));
                                    self.push(Step::new(cl, StrInRe).a(l, salt, 0).s(vec![pc; m as usize]));
                                }
                                _ => {
                                    if self.mgr[c] == 0 {
                                        // delimiters around the loop; a subject with exactly m copies
                                        let y = self.single_code();
                                        self.push(Step::new(cl, Char).a(y, 0, 0));
                                        let hy = self.last(c);
                                        self.push(Step::new(cl, ConcatList).l(vec![hy, l, hy]));
                                        let pat = self.last(c);
                                        let qy = qcode(self, y);
                                        let mut subj = vec![self.point_code(), qy];
                                        subj.extend(std::iter::repeat(pc).take(m as usize));
                                        subj.push(qy);
                                        subj.push(self.point_code());
                                        let t = self.cstr();
                                        self.push(Step::new(cl, Replace).a(pat, salt, 0).s(subj.clone()).t(t.clone()));
                                        self.push(Step::new(cl, ReplaceAll).a(pat, salt, 0).s(subj).t(t));
                                    } else {
                                        self.push(Step::new(cl, StrInRe).a(l, salt, 0).s(vec![pc; m as usize]));
                                    }
                                }
                            }
                        }
                        if self.rng.chance(1, 3) {
                            self.push(Step::new(cl, Compile).a(l, salt, 0));
                        }
                    }
                    11 => {
                        // erase matches so that the pieces join into a new match, then ask again
                        // about exactly that result with the same pattern
                        if self.mgr[c] != 0 {
                            return;
                        }
                        let x = self.single_code();
                        let y = x + 1;
                        let w: Vec<u32> = if self.rng.chance(2, 3) { vec![x, y] } else { vec![x, y, y] };
                        self.push(Step::new(cl, Str).s(w.clone()));
                        let mut pat = self.last(c);
                        if self.rng.chance(1, 3) {
                            self.push(Step::new(cl, Str).s(vec![y, x]));
                            let o = self.last(c);
                            self.push(Step::new(cl, Union).a(pat, o, 0));
                            pat = self.last(c);
                        }
                        let q: Vec<u32> = w.iter().map(|&ch| qcode(self, ch)).collect();
                        // w nested in w: the first letter, the word, the rest
                        let mut nested = vec![q[0]];
                        nested.extend(q.iter().copied());
                        nested.extend(q[1..].iter().copied());
                        if self.rng.chance(1, 3) {
                            nested.insert(0, self.point_code());
                        }
                        let salt = self.rng.u32();
                        self.push(Step::new(cl, ReplaceAll).a(pat, salt, 0).s(nested.clone()).t(vec![]));
                        let mut t = self.cstr();
                        if t.is_empty() {
                            t.push(x);
                        }
                        let mut joined = nested.clone();
                        // what is left after erasing the inner occurrence
                        let inner = joined.len() - q.len() - (q.len() - 1);
                        joined.drain(inner..inner + q.len());
                        self.push(Step::new(cl, ReplaceAll).a(pat, salt, 0).s(joined.clone()).t(t.clone()));
                        self.push(Step::new(cl, Replace).a(pat, salt, 0).s(joined).t(t));
                    }
                    10 => {
                        // eight to ten terms created back to back; two lists that take one of
                        // {t, complement(t)} from each, equal at both ends, different inside
                        let n = 8 + self.rng.below(3) as usize;
                        let mut ts: Vec<u32> = Vec::new();
                        let mut words: Vec<Vec<u32>> = Vec::new();
                        // (each of them must take exactly one new id: counted loops over one
                        // class with counts nobody else uses, or distinct characters)
                        let by_loops = (self.nsingles as usize) < n || self.rng.chance(1, 2);
                        let k = self.ncells;
                        let lo = self.rng.below(k as u64) as u32;
                        let base = 7 + self.rng.below(30) as u32;
                        let first_letter = self.single_code();
                        let mut hx = 0;
                        if by_loops {
                            self.push(Step::new(cl, Range).a(lo, lo, 0));
                            hx = self.last(c);
                        }
                        for i in 0..n as u32 {
                            if by_loops {
                                self.push(Step::new(cl, Loop).a(hx, base + i, base + i + 1));
                                ts.push(self.last(c));
                                words.push(vec![u32::MAX; (base + i) as usize]);
                            } else {
                                let w = vec![(first_letter + i) % self.nsingles.max(1)];
                                self.push(Step::new(cl, Str).s(w.clone()));
                                ts.push(self.last(c));
                                words.push(w);
                            }
                        }
                        let mut cs: Vec<u32> = Vec::new();
                        for &t in &ts {
                            self.push(Step::new(cl, Compl).a(t, 0, 0));
                            cs.push(self.last(c));
                        }
                        let base_neg = self.rng.chance(1, 2);
                        let flip = 1 + self.rng.below(n as u64 - 2) as usize;
                        let l1: Vec<u32> = (0..n).map(|i| if base_neg { cs[i] } else { ts[i] }).collect();
                        let mut l2 = l1.clone();
                        l2[flip] = if base_neg { ts[flip] } else { cs[flip] };
                        let op = if base_neg { InterList } else { UnionList };
                        let (first, second) = if self.rng.chance(1, 2) { (l1, l2) } else { (l2, l1) };
                        self.push(Step::new(cl, op).l(first));
                        let r1 = self.last(c);
                        self.push(Step::new(cl, op).l(second));
                        let r2 = self.last(c);
                        let qw: Vec<u32> = words[flip].iter().map(|&ch| if ch == u32::MAX { lo * 3 + 1 } else { qcode(self, ch) }).collect();
                        let salt = self.rng.u32();
                        for r in [r1, r2] {
                            self.push(Step::new(cl, StrInRe).a(r, salt, 0).s(qw.clone()));
                        }
                        self.push(Step::new(cl, EqCheck).a(r1, r2, 0));
                    }
                    9 => {
                        // a counted loop e = x^[a,b], a nested loop over it, two or more further
                        // copies of e concatenated around it; against a separately built x^[i,j]
                        let k = self.ncells;
                        let lo = self.rng.below(k as u64) as u32;
                        let hi = if self.rng.chance(1, 2) { lo } else { lo + self.rng.below(2) as u32 };
                        self.push(Step::new(cl, Range).a(lo, hi.min(k - 1), 0));
                        let x = self.last(c);
                        let a = 2 + self.rng.below(2) as u32;
                        let b = a + 1 + self.rng.below(2) as u32;
                        self.push(Step::new(cl, Loop).a(x, a, b));
                        let e = self.last(c);
                        match self.rng.below(3) {
                            0 => self.push(Step::new(cl, Star).a(e, 0, 0)),
                            1 => self.push(Step::new(cl, Opt).a(e, 0, 0)),
                            _ => {
                                let d = 1 + self.rng.below(3) as u32;
                                self.push(Step::new(cl, Loop).a(e, 0, d))
                            }
                        }
                        let nested = self.last(c);
                        self.push(Step::new(cl, Concat).a(e, nested, 0));
                        let t = self.last(c);
                        match self.rng.below(3) {
                            0 => self.push(Step::new(cl, Concat).a(e, t, 0)),
                            1 => self.push(Step::new(cl, Concat).a(t, e, 0)),
                            _ => self.push(Step::new(cl, Exp).a(t, 2, 0)),
                        }
                        let s_ = self.last(c);
                        let i = a + self.rng.below(2 * b as u64) as u32;
                        if self.rng.chance(1, 2) {
                            self.push(Step::new(cl, Exp).a(x, i, 0));
                        } else {
                            let j = i + self.rng.below(4) as u32;
                            self.push(Step::new(cl, Loop).a(x, i, j));
                        }
                        let r = self.last(c);
                        self.push(Step::new(cl, IncludedIn).a(r, s_, 0));
                        self.push(Step::new(cl, Union).a(r, s_, 0));
                        let u = self.last(c);
                        let pc = lo * 3 + 1;
                        let salt = self.rng.u32();
                        self.push(Step::new(cl, StrInRe).a(u, salt, 0).s(vec![pc; i as usize]));
                        self.push(Step::new(cl, IncludedIn).a(s_, r, 0));
                    }
                    8 => {
                        // stars nested three to five deep, every level a word with its own head
                        // and tail letters, a mandatory suffix at the end
                        let ns = self.nsingles.max(1);
                        let mut letter = self.single_code();
                        let mut next = |g: &mut Self| -> u32 {
                            letter = (letter + 1) % ns;
                            let _ = g;
                            letter
                        };
                        let (a, b, d, b2) = (next(self), next(self), next(self), next(self));
                        self.push(Step::new(cl, Str).s(vec![b, b2]));
                        let bc = self.last(c);
                        self.push(Step::new(cl, Star).a(bc, 0, 0));
                        let bcs = self.last(c);
                        self.push(Step::new(cl, Char).a(a, 0, 0));
                        let ha = self.last(c);
                        self.push(Step::new(cl, Str).s(vec![d, d]));
                        let dd = self.last(c);
                        self.push(Step::new(cl, ConcatList).l(vec![ha, bcs, dd]));
                        let mut n = self.last(c);
                        let depth = 2 + self.rng.below(3);
                        let mut heads: Vec<u32> = vec![a];
                        let mut tails: Vec<u32> = vec![d];
                        for _ in 0..depth {
                            let (x, y) = (next(self), next(self));
                            heads.push(x);
                            tails.push(y);
                            self.push(Step::new(cl, Char).a(x, 0, 0));
                            let hx = self.last(c);
                            self.push(Step::new(cl, Str).s(vec![y, y]));
                            let hy = self.last(c);
                            self.push(Step::new(cl, Star).a(n, 0, 0));
                            let st = self.last(c);
                            self.push(Step::new(cl, ConcatList).l(vec![hx, st, hy]));
                            n = self.last(c);
                        }
                        self.push(Step::new(cl, Star).a(n, 0, 0));
                        let st = self.last(c);
                        let z = next(self);
                        self.push(Step::new(cl, Char).a(z, 0, 0));
                        let hz = self.last(c);
                        self.push(Step::new(cl, Concat).a(st, hz, 0));
                        let e = self.last(c);
                        let salt = self.rng.u32();
                        self.push(Step::new(cl, Compile).a(e, salt, 0));
                        // a member that goes all the way in and out again
                        let mut w: Vec<u32> = heads.iter().rev().map(|&x| qcode(self, x)).collect();
                        for &t in &tails {
                            w.push(qcode(self, t));
                            w.push(qcode(self, t));
                        }
                        w.push(qcode(self, z));
                        self.push(Step::new(cl, StrInRe).a(e, salt, 0).s(w.clone()));
                        self.push(Step::new(cl, StrDeriv).a(e, 0, 0).s(w));
                        self.push(Step::new(cl, Closure).a(e, salt % 24, 0));
                    }
                    7 => {
                        // a wide frontier of dead chains next to one live route that passes through
                        // two spellings of the same language behind different letters
                        let ns = self.nsingles.max(1);
                        let y: Vec<u32> = vec![self.single_code(), self.single_code()];
                        self.push(Step::new(cl, Str).s(y.clone()));
                        let hy = self.last(c);
                        self.push(Step::new(cl, All));
                        let fl = self.last(c);
                        self.push(Step::new(cl, Char).a(y[1], 0, 0));
                        let hb = self.last(c);
                        self.push(Step::new(cl, ConcatList).l(vec![fl, hb, fl]));
                        let z = self.last(c);
                        self.push(Step::new(cl, Inter).a(hy, z, 0));
                        let t = self.last(c);
                        let c0 = self.single_code();
                        let c1 = (c0 + 1) % ns;
                        self.push(Step::new(cl, Char).a(c0, 0, 0));
                        let h0 = self.last(c);
                        self.push(Step::new(cl, Char).a(c1, 0, 0));
                        let h1 = self.last(c);
                        self.push(Step::new(cl, Concat).a(h0, hy, 0));
                        let l = self.last(c);
                        self.push(Step::new(cl, Concat).a(h1, t, 0));
                        let r = self.last(c);
                        self.push(Step::new(cl, Union).a(l, r, 0));
                        let p = self.last(c);
                        let zc = self.single_code();
                        let plen = 2 + self.rng.below(2) as usize;
                        self.push(Step::new(cl, Str).s(vec![zc; plen]));
                        let pre = self.last(c);
                        self.push(Step::new(cl, Concat).a(pre, p, 0));
                        let live = self.last(c);
                        // dead part: words (xy)^3 over letters other than the prefix letter,
                        // intersected with "contains a letter that no word has"
                        let hash = (zc + 1) % ns;
                        let letters: Vec<u32> = (0..ns).filter(|&q| q != zc && q != hash).take(7).collect();
                        let mut ws: Vec<u32> = Vec::new();
                        for &a in &letters {
                            for &b in &letters {
                                if ws.len() < 40 {
                                    self.push(Step::new(cl, Str).s(vec![a, b, a, b, a, b]));
                                    ws.push(self.last(c));
                                }
                            }
                        }
                        if ws.is_empty() {
                            self.push(Step::new(cl, Str).s(vec![zc, hash]));
                            ws.push(self.last(c));
                        }
                        self.push(Step::new(cl, UnionList).l(ws));
                        let words = self.last(c);
                        self.push(Step::new(cl, Char).a(hash, 0, 0));
                        let hh = self.last(c);
                        self.push(Step::new(cl, ConcatList).l(vec![fl, hh, fl]));
                        let with_hash = self.last(c);
                        self.push(Step::new(cl, Inter).a(words, with_hash, 0));
                        let dead = self.last(c);
                        self.push(Step::new(cl, Union).a(live, dead, 0));
                        let e = self.last(c);
                        self.push(Step::new(cl, GetString).a(e, 0, 0));
                        self.push(Step::new(cl, IsEmpty).a(e, 0, 0));
                    }
                    0 => {
                        // a language covered jointly by two subtracted ones, by neither alone
                        let a = self.single_code();
                        let lo = self.rng.below(self.ncells.saturating_sub(1).max(1) as u64) as u32;
                        self.push(Step::new(cl, Char).a(a, 0, 0));
                        let ha = self.last(c);
                        let mk = |g: &mut Self, x: u32, y: u32| -> u32 {
                            g.push(Step::new(cl, Range).a(x, y, 0));
                            let r = g.last(c);
                            g.push(Step::new(cl, Concat).a(ha, r, 0));
                            g.last(c)
                        };
                        let big = mk(self, lo, lo + 1);
                        let b1 = mk(self, lo, lo);
                        let b2 = mk(self, lo + 1, lo + 1);
                        self.push(Step::new(cl, DiffList).a(big, 0, 0).l(vec![b1, b2]));
                        let d1 = self.last(c);
                        self.push(Step::new(cl, Diff).a(big, b1, 0));
                        let t = self.last(c);
                        self.push(Step::new(cl, Diff).a(t, b2, 0));
                        let d2 = self.last(c);
                        let qa = qcode(self, a);
                        for d in [d1, d2] {
                            self.push(Step::new(cl, StartChar).a(d, qa, 0));
                            let kk = self.rng.below(3) as u32;
                            self.push(Step::new(cl, StartClass).a(d, kk, 0));
                            self.push(Step::new(cl, IsEmpty).a(d, 0, 0));
                        }
                    }
                    1 => {
                        // long runs of one letter and long tilings against a loop over a short word
                        let x = self.single_code();
                        let y = x + 1;
                        let len = 2 + self.rng.below(2) as usize;
                        let w: Vec<u32> = (0..len).map(|_| if self.rng.chance(2, 3) { x } else { y }).collect();
                        self.push(Step::new(cl, Str).s(w.clone()));
                        let hw = self.last(c);
                        let op = if self.rng.chance(1, 2) { Plus } else { Star };
                        self.push(Step::new(cl, op).a(hw, 0, 0));
                        let mut pat = self.last(c);
                        if self.rng.chance(1, 2) {
                            let tail: Vec<u32> = (0..1 + self.rng.below(2)).map(|_| if self.rng.chance(1, 2) { x } else { y }).collect();
                            self.push(Step::new(cl, Str).s(tail));
                            let th = self.last(c);
                            self.push(Step::new(cl, Concat).a(pat, th, 0));
                            pat = self.last(c);
                        }
                        let (qx, qy) = (qcode(self, x), qcode(self, y));
                        let n = 16 + self.rng.below(30) as usize;
                        let run: Vec<u32> = vec![qx; n];
                        let mut tiled: Vec<u32> = Vec::new();
                        while tiled.len() < 33 + self.rng.below(20) as usize {
                            for &ch in &w {
                                tiled.push(if ch == x { qx } else { qy });
                            }
                        }
                        if self.rng.chance(1, 2) {
                            tiled.insert(0, qy);
                        }
                        let salt = self.rng.u32();
                        for sj in [run, tiled] {
                            self.push(Step::new(cl, StrInRe).a(pat, salt, 0).s(sj.clone()));
                            self.push(Step::new(cl, StrDeriv).a(pat, 0, 0).s(sj.clone()));
                            if self.mgr[c] == 0 {
                                let t = self.cstr();
                                self.push(Step::new(cl, Replace).a(pat, salt, 0).s(sj.clone()).t(t.clone()));
                                self.push(Step::new(cl, ReplaceAll).a(pat, salt, 0).s(sj).t(t));
                            }
                        }
                    }
                    2 => {
                        // two unions of 8-9 words each, a mutually subsumed pair split between them
                        // (distinct words over whatever singleton cells the run has)
                        let ns = self.nsingles.max(1) as u64;
                        let mut words: Vec<Vec<u32>> = Vec::new();
                        let mut len = 2u32;
                        while words.len() < 17 {
                            let total = ns.saturating_pow(len).min(64);
                            for idx in 0..total {
                                let mut w = Vec::new();
                                let mut x = idx;
                                for _ in 0..len {
                                    w.push((x % ns) as u32);
                                    x /= ns;
                                }
                                words.push(w);
                                if words.len() >= 17 {
                                    break;
                                }
                            }
                            len += 1;
                        }
                        let pick = self.rng.below(words.len() as u64) as usize;
                        words.swap(0, pick);
                        let t_word = words[0].clone();
                        let mut u1: Vec<u32> = Vec::new();
                        let mut u2: Vec<u32> = Vec::new();
                        for (n, w) in words.iter().enumerate().skip(1).take(16) {
                            self.push(Step::new(cl, Str).s(w.clone()));
                            if n % 2 == 0 { u1.push(self.last(c)) } else { u2.push(self.last(c)) }
                        }
                        self.push(Step::new(cl, Char).a(t_word[0], 0, 0));
                        let first = self.last(c);
                        self.push(Step::new(cl, All));
                        let fl = self.last(c);
                        self.push(Step::new(cl, Concat).a(first, fl, 0));
                        let yy = self.last(c);
                        // the plain spelling is created last among its union's members
                        self.push(Step::new(cl, Str).s(t_word.clone()));
                        let t = self.last(c);
                        self.push(Step::new(cl, Inter).a(t, yy, 0));
                        let ti = self.last(c);
                        if self.rng.chance(1, 2) {
                            u1.push(t);
                            u2.push(ti);
                        } else {
                            u1.push(ti);
                            u2.push(t);
                        }
                        self.push(Step::new(cl, UnionList).l(u1));
                        let h1 = self.last(c);
                        self.push(Step::new(cl, UnionList).l(u2));
                        let h2 = self.last(c);
                        let (a1, a2) = if self.rng.chance(1, 2) { (h1, h2) } else { (h2, h1) };
                        self.push(Step::new(cl, Union).a(a1, a2, 0));
                        let u = self.last(c);
                        let qs: Vec<u32> = t_word.iter().map(|&ch| qcode(self, ch)).collect();
                        let salt = self.rng.u32();
                        self.push(Step::new(cl, StrInRe).a(u, salt, 0).s(qs));
                        self.push(Step::new(cl, IncludedIn).a(t, u, 0));
                    }
                    3 => {
                        // a nullable head whose classes, together with the tail's, tile the alphabet
                        let k = self.ncells;
                        let m = self.rng.below(k.saturating_sub(1).max(1) as u64) as u32;
                        self.push(Step::new(cl, Range).a((m + 1).min(k - 1), k - 1, 0));
                        let hi_r = self.last(c);
                        let hop = [Opt, Star, Plus][self.rng.below(3) as usize];
                        self.push(Step::new(cl, hop).a(hi_r, 0, 0));
                        let head = self.last(c);
                        self.push(Step::new(cl, Range).a(0, m, 0));
                        let lo_r = self.last(c);
                        let xx = self.single_code();
                        self.push(Step::new(cl, Char).a(xx, 0, 0));
                        let hx = self.last(c);
                        self.push(Step::new(cl, Concat).a(lo_r, hx, 0));
                        let tail = self.last(c);
                        self.push(Step::new(cl, Concat).a(head, tail, 0));
                        let e = self.last(c);
                        let salt = self.rng.u32();
                        for _ in 0..4 {
                            let len = 1 + self.rng.below(3);
                            let w: Vec<u32> = (0..len).map(|_| self.point_code()).collect();
                            self.push(Step::new(cl, StrInRe).a(e, salt, 0).s(w));
                        }
                        let pc = self.point_code();
                        self.push(Step::new(cl, CharDeriv).a(e, pc, 0));
                        self.push(Step::new(cl, ClassInfo).a(e, 0, 0));
                        let kk = self.rng.below(4) as u32;
                        self.push(Step::new(cl, StartClass).a(e, kk, 0));
                    }
                    4 => {
                        // a short rigid prefix in front of 15-20 alternatives with distinct tails
                        let base = self.single_code();
                        let n = 15 + self.rng.below(6) as u32;
                        let mut alts: Vec<u32> = Vec::new();
                        for i in 0..n {
                            if i == 0 {
                                self.push(Step::new(cl, Char).a(base, 0, 0));
                            } else {
                                self.push(Step::new(cl, Str).s(vec![base + i, base + i + 7]));
                            }
                            alts.push(self.last(c));
                        }
                        self.push(Step::new(cl, UnionList).l(alts));
                        let un = self.last(c);
                        let pl = 1 + self.rng.below(2) as usize;
                        self.push(Step::new(cl, Str).s(vec![base; pl]));
                        let pre = self.last(c);
                        self.push(Step::new(cl, Concat).a(pre, un, 0));
                        let e = self.last(c);
                        let r = self.rng.u32();
                        self.push(Step::new(cl, Closure).a(e, r % 32, 0));
                        self.push(Step::new(cl, Compile).a(e, r, 0));
                    }
                    5 => {
                        // behind different first letters: a complemented word and a plain word that
                        // start with the same letter
                        let x = self.single_code();
                        let (y, b) = (x + 1, x + 2);
                        self.push(Step::new(cl, Str).s(vec![b, x]));
                        let w1 = self.last(c);
                        self.push(Step::new(cl, Compl).a(w1, 0, 0));
                        let nw1 = self.last(c);
                        self.push(Step::new(cl, Str).s(vec![b, y]));
                        let w2 = self.last(c);
                        self.push(Step::new(cl, Char).a(x, 0, 0));
                        let hx = self.last(c);
                        self.push(Step::new(cl, Char).a(y, 0, 0));
                        let hy = self.last(c);
                        self.push(Step::new(cl, Concat).a(hx, nw1, 0));
                        let l = self.last(c);
                        self.push(Step::new(cl, Concat).a(hy, w2, 0));
                        let r = self.last(c);
                        let (l, r) = if self.rng.chance(1, 2) { (l, r) } else { (r, l) };
                        self.push(Step::new(cl, Union).a(l, r, 0));
                        let e = self.last(c);
                        let salt = self.rng.u32();
                        self.push(Step::new(cl, Compile).a(e, salt, 0));
                        let w: Vec<u32> = vec![qcode(self, y), self.point_code()];
                        self.push(Step::new(cl, StrInRe).a(e, salt, 0).s(w));
                        self.push(Step::new(cl, Closure).a(e, salt % 16, 0));
                    }
                    _ => {
                        // intersections that contain both Sigma (one character) and epsilon next to
                        // nullable members, associated in different ways
                        let h = self.h(c);
                        self.push(Step::new(cl, Star).a(h, 0, 0));
                        let sh = self.last(c);
                        let mut rs: Vec<u32> = Vec::new();
                        self.push(Step::new(cl, InterList).l(vec![2, 1, sh]));
                        rs.push(self.last(c));
                        self.push(Step::new(cl, Inter).a(2, sh, 0));
                        let t = self.last(c);
                        self.push(Step::new(cl, Inter).a(t, 1, 0));
                        rs.push(self.last(c));
                        self.push(Step::new(cl, Inter).a(sh, 1, 0));
                        let t2 = self.last(c);
                        self.push(Step::new(cl, Inter).a(2, t2, 0));
                        rs.push(self.last(c));
                        for r in rs {
                            let salt = self.rng.u32();
                            self.push(Step::new(cl, StrInRe).a(r, salt, 0).s(vec![]));
                            self.push(Step::new(cl, IsEmpty).a(r, 0, 0));
                        }
                        self.push(Step::new(cl, EqCheck).a(self.last(c), self.last(c).saturating_sub(2), 0));
                    }
                }
            }
            21 | 22 => {
                // alternatives that share a first character, under complement and De Morgan shapes:
                // the union that the inclusion test has to get right appears only in a derivative
                let a = self.single_code();
                let cc = a + 2;
                let lo = self.rng.below(self.ncells as u64) as u32;
                self.push(Step::new(cl, Char).a(a, 0, 0));
                let ha = self.last(c);
                self.push(Step::new(cl, Char).a(cc, 0, 0));
                let hc = self.last(c);
                self.push(Step::new(cl, Union).a(ha, hc, 0));
                let head = self.last(c);
                let hi0 = lo + 1 + self.rng.below(3) as u32;
                self.push(Step::new(cl, Range).a(lo, hi0, 0));
                let r = self.last(c);
                self.push(Step::new(cl, Concat).a(head, r, 0));
                let big_a = self.last(c); // (a+c).R
                let w1 = vec![a, self.single_code()];
                let w2 = vec![a, self.single_code()];
                self.push(Step::new(cl, Str).s(w1.clone()));
                let s1 = self.last(c);
                self.push(Step::new(cl, Str).s(w2.clone()));
                let s2 = self.last(c);
                self.push(Step::new(cl, Union).a(s1, s2, 0));
                let u = self.last(c); // "ax" + "ay"
                self.push(Step::new(cl, Compl).a(big_a, 0, 0));
                let na = self.last(c);
                self.push(Step::new(cl, Compl).a(u, 0, 0));
                let nu = self.last(c);
                let mut ts: Vec<u32> = Vec::new();
                self.push(Step::new(cl, Union).a(na, nu, 0));
                ts.push(self.last(c));
                self.push(Step::new(cl, Inter).a(na, nu, 0));
                ts.push(self.last(c));
                self.push(Step::new(cl, Inter).a(big_a, nu, 0));
                ts.push(self.last(c));
                self.push(Step::new(cl, Diff).a(u, big_a, 0));
                ts.push(self.last(c));
                let qa = if self.single_cells.is_empty() { 0 } else { self.single_cells[a as usize % self.single_cells.len()] * 3 };
                for t in ts {
                    // derive by the shared first character, then ask about the continuations
                    self.push(Step::new(cl, CharDeriv).a(t, qa, 0));
                    let d = self.last(c);
                    let salt = self.rng.u32();
                    for _ in 0..2 {
                        let w = vec![self.point_code()];
                        self.push(Step::new(cl, StrInRe).a(d, salt, 0).s(w));
                    }
                    let mut w = vec![qa];
                    w.push(self.point_code());
                    self.push(Step::new(cl, StrInRe).a(t, salt, 0).s(w.clone()));
                    self.push(Step::new(cl, StrDeriv).a(t, 0, 0).s(w));
                    if self.rng.chance(1, 2) {
                        let op = [ClassInfo, SetDeriv, IsEmpty, Compile][self.rng.below(4) as usize];
                        self.push(Step::new(cl, op).a(t, qa, qa + 2));
                    }
                }
            }
            23 | 24 => {
                // star over a union of short words, followed by a word: scans of a search leave the
                // initial state and come back to it; subjects over the same letters
                let x = self.single_code();
                let letters = [x, x + 1, x + 2];
                let mut words: Vec<u32> = Vec::new();
                for _ in 0..(2 + self.rng.below(2)) {
                    let len = 1 + self.rng.below(2) as usize + if self.rng.chance(1, 3) { 1 } else { 0 };
                    let w: Vec<u32> = (0..len).map(|_| letters[self.rng.below(3) as usize]).collect();
                    self.push(Step::new(cl, Str).s(w));
                    words.push(self.last(c));
                }
                if self.rng.chance(1, 4) {
                    // members whose first characters tile the whole alphabet, one of them not a
                    // plain range: [0..m] + [m+1..max].x
                    let k = self.ncells;
                    let m = self.rng.below(k.saturating_sub(1).max(1) as u64) as u32;
                    self.push(Step::new(cl, Range).a(0, m, 0));
                    let r1 = self.last(c);
                    self.push(Step::new(cl, Range).a((m + 1).min(k - 1), k - 1, 0));
                    let r2 = self.last(c);
                    let w0 = words[0];
                    self.push(Step::new(cl, Concat).a(r2, w0, 0));
                    let r2w = self.last(c);
                    words = vec![r1, r2w];
                }
                self.push(Step::new(cl, UnionList).l(words));
                let u = self.last(c);
                // class ids of a union whose members have shifted class numbering
                for _ in 0..2 {
                    let kk = self.rng.below(6) as u32;
                    self.push(Step::new(cl, StartClass).a(u, kk, 0));
                }
                let plain = self.rng.chance(1, 3);
                let op = if self.rng.chance(3, 4) { Star } else { Plus };
                if plain {
                    // the union itself is the pattern (alternatives of different lengths)
                    self.push(Step::new(cl, Union).a(u, u, 0));
                } else {
                    self.push(Step::new(cl, op).a(u, 0, 0));
                }
                let st = self.last(c);
                let tail: Vec<u32> = (0..1 + self.rng.below(2)).map(|_| letters[self.rng.below(3) as usize]).collect();
                self.push(Step::new(cl, Str).s(tail));
                let th = self.last(c);
                self.push(Step::new(cl, Concat).a(st, th, 0));
                let pat = if plain { st } else { self.last(c) };
                let ql: Vec<u32> = letters
                    .iter()
                    .map(|&l| if self.single_cells.is_empty() { 0 } else { self.single_cells[l as usize % self.single_cells.len()] * 3 })
                    .collect();
                for _ in 0..4 {
                    let len = 2 + self.rng.below(7);
                    let mut subj: Vec<u32> = (0..len).map(|_| ql[self.rng.below(3) as usize]).collect();
                    if self.rng.chance(1, 3) {
                        // periodic subject: g w g w x
                        let seg: Vec<u32> = (0..2 + self.rng.below(2)).map(|_| ql[self.rng.below(3) as usize]).collect();
                        subj = seg.clone();
                        subj.extend_from_slice(&seg);
                        subj.push(ql[self.rng.below(3) as usize]);
                    }
                    if self.rng.chance(1, 3) {
                        subj.push(self.point_code());
                    }
                    let salt = self.rng.u32();
                    if self.mgr[c] == 0 {
                        let t = self.cstr();
                        self.push(Step::new(cl, Replace).a(pat, salt, 0).s(subj.clone()).t(t.clone()));
                        self.push(Step::new(cl, ReplaceAll).a(pat, salt, 0).s(subj.clone()).t(t));
                    }
                    self.push(Step::new(cl, StrInRe).a(pat, salt, 0).s(subj));
                }
            }
            25 | 26 if self.rng.chance(1, 3) => {
                // powers and counted loops with "interesting" counts (around powers of two, 100, 300)
                // over a character class and a wider one, or over a nullable absorbing body
                // (S* c?), compared and combined; bounds of try_compile in the same ranges
                let ks = [1u32, 2, 3, 7, 8, 15, 16, 31, 32, 63, 64, 65, 99, 100, 101, 127, 128, 129, 150, 200, 255, 256, 257, 258, 300];
                // the large counts are expensive for everybody (300 states, 300-character strings):
                // one time in four
                let top = if self.rng.chance(1, 4) { ks.len() } else { 12 };
                let k1 = ks[self.rng.below(top as u64) as usize];
                let k2 = match self.rng.below(4) {
                    0 => k1,
                    1 => k1 + 1,
                    2 => k1.saturating_sub(1).max(1),
                    _ => ks[self.rng.below(top as u64) as usize],
                };
                let a = self.rng.below(self.ncells as u64) as u32;
                self.push(Step::new(cl, Range).a(a, a, 0));
                let narrow = self.last(c);
                self.push(Step::new(cl, Range).a(a.saturating_sub(1), a + 1, 0));
                let wide = self.last(c);
                let body2 = match self.rng.below(4) {
                    0 => {
                        self.push(Step::new(cl, AllChar));
                        self.last(c)
                    }
                    1 => {
                        // nullable absorbing body: S* c?
                        self.push(Step::new(cl, Star).a(wide, 0, 0));
                        let s0 = self.last(c);
                        self.push(Step::new(cl, Opt).a(narrow, 0, 0));
                        let o = self.last(c);
                        self.push(Step::new(cl, Concat).a(s0, o, 0));
                        self.last(c)
                    }
                    2 => {
                        self.push(Step::new(cl, All));
                        let f = self.last(c);
                        self.push(Step::new(cl, Opt).a(narrow, 0, 0));
                        let o = self.last(c);
                        self.push(Step::new(cl, Concat).a(f, o, 0));
                        self.last(c)
                    }
                    _ => wide,
                };
                let mk = |g: &mut Self, body: u32, k: u32| -> u32 {
                    match g.rng.below(4) {
                        0 => g.push(Step::new(cl, Exp).a(body, k, 0)),
                        1 => {
                            let hi = k + g.rng.below(60) as u32;
                            g.push(Step::new(cl, Loop).a(body, k, hi))
                        }
                        2 => g.push(Step::new(cl, LoopInf).a(body, k, 0)),
                        _ => g.push(Step::new(cl, Loop).a(body, k.saturating_sub(2), k)),
                    }
                    g.last(c)
                };
                let x = mk(self, narrow, k1);
                let y = mk(self, body2, k2);
                self.push(Step::new(cl, IncludedIn).a(x, y, 0));
                self.push(Step::new(cl, IncludedIn).a(y, x, 0));
                self.push(Step::new(cl, Union).a(x, y, 0));
                let u = self.last(c);
                let salt = self.rng.u32();
                if k1.max(k2) <= 66 || self.rng.chance(1, 3) {
                    self.push(Step::new(cl, StrInRe).a(u, salt, 0).s(vec![a * 3; k1.min(300) as usize]));
                    self.push(Step::new(cl, StrInRe).a(u, salt, 0).s(vec![a * 3; k2.min(300) as usize]));
                }
                for t in [x, y] {
                    // whole-graph work on 300-state terms is expensive: mostly bounded compilations
                    let op = if k1.max(k2) <= 66 {
                        [Closure, TryCompile, Compile, IsEmpty][self.rng.below(4) as usize]
                    } else {
                        [TryCompile, TryCompile, TryCompile, Closure][self.rng.below(4) as usize]
                    };
                    // try_compile modes 0/1 use small bounds derived from the third operand
                    let b = [1u32, 2, 3, 50, 99, 100, 150, 255][self.rng.below(8) as usize];
                    let md = self.rng.below(2) as u32;
                    self.push(Step::new(cl, op).a(t, md, b));
                }
            }
            19 | 20 => {
                // absorption: s + (s & y), s & (s + y) with y syntactically wider than s, their
                // complement duals, and the same with an unrelated third member whose id may lie on
                // either side (it is often a term another client created earlier)
                let s0 = if self.rng.chance(1, 2) {
                    let a = self.single_code();
                    self.push(Step::new(cl, Char).a(a, 0, 0));
                    self.last(c)
                } else {
                    self.h(c)
                };
                let y = match self.rng.below(4) {
                    0 => {
                        self.push(Step::new(cl, AllChar));
                        self.last(c)
                    }
                    1 => {
                        self.push(Step::new(cl, All));
                        self.last(c)
                    }
                    2 => {
                        let k = self.ncells;
                        let hi = k - 1 - self.rng.below(2) as u32;
                        self.push(Step::new(cl, Range).a(0, hi, 0));
                        self.last(c)
                    }
                    _ => {
                        let o = self.h(c);
                        self.push(Step::new(cl, Union).a(s0, o, 0));
                        self.last(c)
                    }
                };
                let third = if self.rng.chance(1, 2) {
                    let a = self.single_code();
                    self.push(Step::new(cl, Char).a(a, 0, 0));
                    self.last(c)
                } else {
                    self.h(c)
                };
                self.push(Step::new(cl, Inter).a(s0, y, 0));
                let i = self.last(c);
                self.push(Step::new(cl, Union).a(s0, y, 0));
                let u = self.last(c);
                let mut results: Vec<u32> = Vec::new();
                self.push(Step::new(cl, Union).a(s0, i, 0));
                results.push(self.last(c));
                self.push(Step::new(cl, Inter).a(s0, u, 0));
                results.push(self.last(c));
                self.push(Step::new(cl, UnionList).l(vec![s0, i, third]));
                results.push(self.last(c));
                self.push(Step::new(cl, UnionList).l(vec![third, i, s0]));
                results.push(self.last(c));
                self.push(Step::new(cl, InterList).l(vec![s0, u, third]));
                results.push(self.last(c));
                // complement duals
                self.push(Step::new(cl, Compl).a(s0, 0, 0));
                let ns = self.last(c);
                self.push(Step::new(cl, Compl).a(i, 0, 0));
                let ni = self.last(c);
                self.push(Step::new(cl, Union).a(ns, ni, 0));
                results.push(self.last(c));
                self.push(Step::new(cl, Inter).a(ns, ni, 0));
                results.push(self.last(c));
                for r in results {
                    let salt = self.rng.u32();
                    let q = self.qstr();
                    self.push(Step::new(cl, StrInRe).a(r, salt, 0).s(q));
                    if self.rng.chance(1, 3) {
                        let op = [IsEmpty, GetString, Compile, StartChar][self.rng.below(4) as usize];
                        self.push(Step::new(cl, op).a(r, salt % 32, 0));
                    }
                }
            }
            16 | 17 | 18 => {
                // Sigma*-separated patterns over two letters: [B0] (S* B_i)+ [S*] and relatives of it
                // (a block dropped, a block replaced, only the ends, S* last-block). Overlapping
                // blocks over {x,y} are where the syntactic inclusion test (rigid prefix / suffix /
                // inner matches) has its index arithmetic.
                if self.single_cells.len() < 2 {
                    return;
                }
                let x = self.single_code();
                let y = x + 1;
                let qx = self.single_cells[x as usize % self.single_cells.len()] * 3;
                let qy = self.single_cells[y as usize % self.single_cells.len()] * 3;
                let nblocks = 2 + self.rng.below(3) as usize;
                let mut blocks: Vec<Vec<bool>> = Vec::new(); // false = x, true = y
                for _ in 0..nblocks {
                    let len = 1 + self.rng.below(3) as usize;
                    blocks.push((0..len).map(|_| self.rng.chance(1, 2)).collect());
                }
                // make overlaps likely: sometimes a block is a suffix / prefix of another
                if self.rng.chance(1, 2) {
                    let i = self.rng.below(nblocks as u64) as usize;
                    let j = self.rng.below(nblocks as u64) as usize;
                    let src = blocks[j].clone();
                    let cut = self.rng.below(src.len() as u64) as usize;
                    blocks[i] = if self.rng.chance(1, 2) { src[cut..].to_vec() } else { src[..=cut].to_vec() };
                }
                let code = |b: bool| if b { y } else { x };
                self.push(Step::new(cl, All));
                let all = self.last(c);
                let mut bh: Vec<u32> = Vec::new();
                for b in &blocks {
                    let sv: Vec<u32> = b.iter().map(|&z| code(z)).collect();
                    if self.rng.chance(1, 3) && b.len() == 1 {
                        self.push(Step::new(cl, Char).a(sv[0], 0, 0));
                    } else {
                        self.push(Step::new(cl, Str).s(sv));
                    }
                    bh.push(self.last(c));
                }
                let lead = self.rng.chance(1, 2);
                let trail_all = self.rng.chance(1, 2);
                let build = |lead: bool, idx: &[usize], trail_all: bool| -> Vec<u32> {
                    let mut seq = Vec::new();
                    for (n, &i) in idx.iter().enumerate() {
                        if n > 0 || !lead {
                            seq.push(all);
                        }
                        seq.push(bh[i]);
                    }
                    if trail_all {
                        seq.push(all);
                    }
                    seq
                };
                let idx: Vec<usize> = (0..nblocks).collect();
                self.push(Step::new(cl, ConcatList).l(build(lead, &idx, trail_all)));
                let p = self.last(c);
                let mut rel: Vec<u32> = Vec::new();
                for _ in 0..2 {
                    match self.rng.below(6) {
                        0 => {
                            // a block dropped
                            let d = self.rng.below(nblocks as u64) as usize;
                            let idx2: Vec<usize> = (0..nblocks).filter(|&i| i != d).collect();
                            if idx2.is_empty() {
                                continue;
                            }
                            self.push(Step::new(cl, ConcatList).l(build(lead, &idx2, trail_all)));
                        }
                        1 => {
                            // only the first blocks, glued (no S* in between)
                            let k = 1 + self.rng.below(nblocks as u64) as usize;
                            self.push(Step::new(cl, ConcatList).l(bh[..k].to_vec()));
                        }
                        2 => {
                            // S* last-block
                            self.push(Step::new(cl, ConcatList).l(vec![all, bh[nblocks - 1]]));
                        }
                        3 => {
                            // first block S*
                            self.push(Step::new(cl, ConcatList).l(vec![bh[0], all]));
                        }
                        4 => {
                            // anchoring flipped
                            self.push(Step::new(cl, ConcatList).l(build(!lead, &idx, !trail_all)));
                        }
                        _ => {
                            // blocks in another order
                            let mut idx2 = idx.clone();
                            idx2.rotate_left(1);
                            self.push(Step::new(cl, ConcatList).l(build(lead, &idx2, trail_all)));
                        }
                    }
                    rel.push(self.last(c));
                }
                // a few words over {x,y}: the blocks glued with and without overlap, and random ones
                let mut words: Vec<Vec<u32>> = Vec::new();
                let mut glued: Vec<u32> = Vec::new();
                for b in &blocks {
                    glued.extend(b.iter().map(|&z| if z { qy } else { qx }));
                }
                words.push(glued.clone());
                if glued.len() > 2 {
                    let mut g2 = glued.clone();
                    g2.remove(self.rng.below(g2.len() as u64) as usize);
                    words.push(g2);
                }
                words.push(blocks[0].iter().map(|&z| if z { qy } else { qx }).collect());
                for _ in 0..2 {
                    let len = 1 + self.rng.below(6);
                    words.push((0..len).map(|_| if self.rng.chance(1, 2) { qx } else { qy }).collect());
                }
                for &q in &rel {
                    self.push(Step::new(cl, IncludedIn).a(q, p, 0));
                    self.push(Step::new(cl, IncludedIn).a(p, q, 0));
                    let op = [Union, Union, Inter, Diff][self.rng.below(4) as usize];
                    self.push(Step::new(cl, op).a(q, p, 0));
                    let u = self.last(c);
                    let salt = self.rng.u32();
                    for w in &words {
                        self.push(Step::new(cl, StrInRe).a(u, salt, 0).s(w.clone()));
                    }
                    let op2 = [IsEmpty, GetString, Compile, Closure, StartChar, ClassInfo][self.rng.below(6) as usize];
                    let r = self.rng.u32();
                    self.push(Step::new(cl, op2).a(u, r % 64, 0));
                }
                let salt = self.rng.u32();
                for w in &words {
                    self.push(Step::new(cl, StrInRe).a(p, salt, 0).s(w.clone()));
                }
                // derivatives of the pattern itself build unions of its tails internally
                let w0 = words[self.rng.below(words.len() as u64) as usize].clone();
                self.push(Step::new(cl, StrDeriv).a(p, 0, 0).s(w0));
                let d = self.last(c);
                let op3 = [IsEmpty, GetString, Compile, Closure][self.rng.below(4) as usize];
                self.push(Step::new(cl, op3).a(d, 0, 0));
                self.push(Step::new(cl, op3).a(p, 0, 0));
            }
            12 | 13 => {
                // the same membership question before and after another kind of call on the same term
                let h = self.h(c);
                let s = self.qstr();
                let salt = self.rng.u32();
                self.push(Step::new(cl, StrInRe).a(h, salt, 0).s(s.clone()));
                let mid = [IsEmpty, GetString, StartChar, Compile, Closure, IterAbandon, CompileAbort, Evict, ClassInfo, TrapCall]
                    [self.rng.below(10) as usize];
                self.gen_op(c, mid);
                // make the middle call address the same term where it takes a handle
                if let Some(last) = self.steps.last_mut() {
                    if last.op.handle_refs().0 >= 1 {
                        last.a[0] = h;
                    }
                }
                self.push(Step::new(cl, StrInRe).a(h, salt, 0).s(s));
            }
            10 | 11 => {
                // a character class with many pieces: union of 3-6 chars / ranges (many derivative
                // classes, holes of width one between them), then used under a loop / concatenation
                let many = self.nsingles >= 17 && (self.force_many || self.rng.chance(2, 3));
                let n = if many {
                    // at least 17 pieces, up to (almost) all singleton characters
                    let top = (self.nsingles as u64).min(330);
                    if top > 200 {
                        // very wide alphabet: (almost) all of it, so that class indices pass 255
                        top - self.rng.below(8)
                    } else {
                        17 + self.rng.below(top - 16)
                    }
                } else {
                    3 + self.rng.below(4)
                };
                let first = self.single_code();
                let mut parts: Vec<u32> = Vec::new();
                // two or three shared continuations keep the reference automaton small however many
                // alternatives there are
                let conts = [self.h(c), self.h(c), self.h(c)];
                for i in 0..n {
                    if many || self.rng.chance(1, 2) {
                        let a = if many { first + i as u32 } else { self.single_code() };
                        self.push(Step::new(cl, Char).a(a, 0, 0));
                    } else {
                        let a = self.rng.below(self.ncells as u64) as u32;
                        let b = if self.rng.chance(2, 3) { a } else { a + 1 };
                        self.push(Step::new(cl, Range).a(a, b, 0));
                    }
                    parts.push(self.last(c));
                }
                if self.rng.chance(1, 3) || (many && (self.force_many || self.rng.chance(1, 2))) {
                    // alternatives with different continuations
                    let mut alts: Vec<u32> = Vec::new();
                    // distinct tails: every alternative leads to its own successor state
                    // (only for moderately many alternatives: each one is a state of every automaton,
                    // and every state is stepped on every test character)
                    let distinct_tails = self.rng.chance(1, 3) && parts.len() <= 48;
                    for (i, &p) in parts.clone().iter().enumerate() {
                        let t = if distinct_tails {
                            parts[(i + 1) % parts.len()]
                        } else if many {
                            conts[i % 3]
                        } else {
                            self.h(c)
                        };
                        self.push(Step::new(cl, Concat).a(p, t, 0));
                        alts.push(self.last(c));
                    }
                    if many && self.rng.chance(1, 2) && !alts.is_empty() {
                        // an absorption pair among many members: t and t & y with y wider
                        let t = alts[self.rng.below(alts.len() as u64) as usize];
                        self.push(Step::new(cl, AllChar));
                        let sg = self.last(c);
                        self.push(Step::new(cl, All));
                        let fl = self.last(c);
                        self.push(Step::new(cl, Concat).a(sg, fl, 0));
                        let y = self.last(c);
                        self.push(Step::new(cl, Inter).a(t, y, 0));
                        alts.push(self.last(c));
                    }
                    self.push(Step::new(cl, UnionList).l(alts.clone()));
                    if self.rng.chance(1, 3) {
                        // ... under a Sigma* prefix: the initial state sees every first letter plus
                        // the rest of the alphabet
                        let un = self.last(c);
                        self.push(Step::new(cl, All));
                        let fl = self.last(c);
                        self.push(Step::new(cl, Concat).a(fl, un, 0));
                        let su = self.last(c);
                        let r8 = self.rng.u32();
                        self.push(Step::new(cl, Compile).a(su, r8, 0));
                        self.push(Step::new(cl, Closure).a(su, r8 % 16, 0));
                        let q8 = self.qstr();
                        self.push(Step::new(cl, StrInRe).a(su, r8, 0).s(q8));
                        self.push(Step::new(cl, Compile).a(un, r8, 0));
                        self.push(Step::new(cl, Closure).a(un, r8 % 16, 0));
                        self.push(Step::new(cl, IsEmpty).a(un, 0, 0));
                    }
                    if many {
                        // ask about it right away: membership, derivatives by late classes, compile
                        let u = self.last(c);
                        let q = self.qstr();
                        let r1 = self.rng.u32();
                        self.push(Step::new(cl, StrInRe).a(u, r1, 0).s(q));
                        let k = self.rng.below(n) as u32;
                        self.push(Step::new(cl, ClassDeriv).a(u, k, 0));
                        let pc = self.point_code();
                        self.push(Step::new(cl, CharDeriv).a(u, pc, 0));
                        let op = [Compile, ClassInfo, IsEmpty, GetString, Closure][self.rng.below(5) as usize];
                        let r2 = self.rng.u32();
                        self.push(Step::new(cl, op).a(u, r2, 0));
                        self.push(Step::new(cl, Compl).a(u, 0, 0));
                        let nu = self.last(c);
                        let (k1, k2, k3) = (
                            self.rng.below(n) as u32,
                            self.rng.below(n) as u32,
                            self.rng.below(n) as u32,
                        );
                        self.push(Step::new(cl, ClassDeriv).a(nu, k1, 0));
                        self.push(Step::new(cl, ClassDeriv).a(u, k2, 0));
                        self.push(Step::new(cl, StartClass).a(u, k3, 0));
                        self.push(Step::new(cl, ClassInfo).a(u, 0, 0));
                        // the union narrowed to the strings that start in the lower half of the
                        // alphabet, and its complement: start_class answers differ between classes
                        let half = self.ncells / 2;
                        self.push(Step::new(cl, Range).a(0, half, 0));
                        let lowr = self.last(c);
                        self.push(Step::new(cl, All));
                        let allh = self.last(c);
                        self.push(Step::new(cl, Concat).a(lowr, allh, 0));
                        let low = self.last(c);
                        self.push(Step::new(cl, Inter).a(u, low, 0));
                        let v = self.last(c);
                        self.push(Step::new(cl, Compl).a(v, 0, 0));
                        let nv = self.last(c);
                        for _ in 0..4 {
                            let k = self.rng.below(n.max(1)) as u32;
                            let which = if self.rng.chance(1, 2) { v } else { nv };
                            self.push(Step::new(cl, StartClass).a(which, k, 0));
                            let other = if which == v { nv } else { v };
                            for d in [64u32, 256, 16] {
                                if self.rng.chance(1, 2) {
                                    self.push(Step::new(cl, StartClass).a(other, k + d, 0));
                                    self.push(Step::new(cl, StartClass).a(which, k + d, 0));
                                    self.push(Step::new(cl, StartClass).a(other, k.saturating_sub(d), 0));
                                }
                            }
                            // the complementary class is the last valid id
                            let kc = n as u32 + self.rng.below(3) as u32;
                            self.push(Step::new(cl, StartClass).a(which, kc, 0));
                        }
                        // alternatives intersected with the complement of the whole union: empty only
                        // semantically, and the emptiness search has to walk through late classes
                        for _ in 0..3 {
                            let i = if alts.len() > 256 && self.rng.chance(1, 2) {
                                250 + self.rng.below(alts.len() as u64 - 250) as usize
                            } else {
                                self.rng.below(alts.len() as u64) as usize
                            };
                            let x = alts[i];
                            if self.rng.chance(1, 2) {
                                self.push(Step::new(cl, Inter).a(nu, x, 0));
                            } else {
                                self.push(Step::new(cl, Diff).a(x, u, 0));
                            }
                            let e = self.last(c);
                            let r3 = self.rng.u32();
                            self.push(Step::new(cl, IsEmpty).a(e, r3, 0));
                            self.push(Step::new(cl, GetString).a(e, r3, 0));
                            let pc2 = self.point_code();
                            self.push(Step::new(cl, StartChar).a(e, pc2, 0));
                        }
                    }
                } else {
                    let mut absorbed_q: Option<u32> = None;
                    if many && self.rng.chance(1, 2) {
                        // an absorption pair among many members: a character and (character & class)
                        let ti = self.rng.below(parts.len() as u64) as usize;
                        let t = parts[ti];
                        if !self.single_cells.is_empty() {
                            let code = first + ti as u32;
                            absorbed_q = Some(self.single_cells[code as usize % self.single_cells.len()] * 3);
                        }
                        let k = self.ncells;
                        self.push(Step::new(cl, Range).a(0, k - 1, 0));
                        let y = self.last(c);
                        self.push(Step::new(cl, Inter).a(t, y, 0));
                        parts.push(self.last(c));
                    }
                    let probe = parts[self.rng.below(parts.len() as u64) as usize];
                    self.push(Step::new(cl, UnionList).l(parts));
                    let u = self.last(c);
                    if many {
                        let r = self.rng.u32();
                        let q = self.qstr();
                        self.push(Step::new(cl, StrInRe).a(u, r, 0).s(q));
                        self.push(Step::new(cl, IncludedIn).a(probe, u, 0));
                        let pc = match absorbed_q {
                            Some(q) => q,
                            None => self.point_code(),
                        };
                        self.push(Step::new(cl, StrInRe).a(u, r, 0).s(vec![pc]));
                        self.push(Step::new(cl, StartChar).a(u, pc, 0));
                        let kk = self.rng.below(n.max(1)) as u32;
                        self.push(Step::new(cl, StartClass).a(u, kk, 0));
                        self.push(Step::new(cl, Concat).a(u, u, 0));
                        let uu = self.last(c);
                        self.push(Step::new(cl, StartChar).a(uu, pc, 0));
                        self.push(Step::new(cl, StartClass).a(uu, kk, 0));
                    }
                    match self.rng.below(4) {
                        0 => self.push(Step::new(cl, Star).a(u, 0, 0)),
                        1 => self.push(Step::new(cl, Plus).a(u, 0, 0)),
                        2 => {
                            let t = self.h(c);
                            self.push(Step::new(cl, Concat).a(u, t, 0));
                        }
                        _ => {}
                    }
                }
            }
            _ => {
                // complement sandwich: ~(a . ~b)
                let a = self.h(c);
                let b = self.h(c);
                self.push(Step::new(cl, Compl).a(b, 0, 0));
                let nb = self.last(c);
                self.push(Step::new(cl, Concat).a(a, nb, 0));
                let x = self.last(c);
                self.push(Step::new(cl, Compl).a(x, 0, 0));
            }
        }
    }
}

pub fn gen_alphabet(rng: &mut Rng) -> Vec<u32> {
    let mut bounds: Vec<u32> = Vec::new();
    // wide alphabets: many singleton characters (17-45, rarely 260-330), so that terms with tens or
    // hundreds of derivative classes occur
    let wide = match rng.below(200) {
        0 | 1 => 260 + rng.below(71),
        2..=13 => 17 + rng.below(70),
        _ => 0,
    };
    if wide > 0 {
        let base = [0u32, 0x41, 0x3E8, 0x2FA00, 0x10000 - 40][rng.below(5) as usize];
        let stride = [1u32, 2, 2, 3, 5][rng.below(5) as usize];
        for i in 0..wide as u32 {
            let p = base + i * stride;
            if p < MAX_CHAR {
                bounds.push(p);
                bounds.push(p + 1);
            }
        }
        if rng.chance(1, 2) {
            bounds.push(MAX_CHAR);
        }
        bounds.retain(|&b| b > 0 && b <= MAX_CHAR);
        bounds.sort_unstable();
        bounds.dedup();
        return bounds;
    }
    let ns = 2 + rng.below(3) + if rng.chance(1, 3) { rng.below(3) } else { 0 };
    let adjacent = rng.chance(1, 2);
    let mut chosen = 0;
    if adjacent {
        // a run of adjacent singletons ('a','b','c' or the top of the alphabet, or 0,1)
        let base = [0x61u32, 0x2FFFE, 0, 0x62][rng.below(4) as usize];
        let n = 2 + rng.below(2) as u32;
        for i in 0..n {
            let p = base + i;
            if p <= MAX_CHAR {
                bounds.push(p);
                bounds.push(p + 1);
                chosen += 1;
            }
        }
    }
    while chosen < ns {
        let p = SINGLES[rng.below(SINGLES.len() as u64) as usize];
        bounds.push(p);
        bounds.push(p + 1);
        chosen += 1;
    }
    let ne = rng.below(4);
    for _ in 0..ne {
        bounds.push(EXTRA_CUTS[rng.below(EXTRA_CUTS.len() as u64) as usize]);
    }
    bounds.retain(|&b| b > 0 && b <= MAX_CHAR);
    bounds.sort_unstable();
    bounds.dedup();
    bounds
}

pub fn generate(seed: u64, prop: Prop) -> Trace {
    let mut rng = Rng::new(seed);
    let cuts = gen_alphabet(&mut rng);
    let alpha = Alphabet::new(&cuts);

    // clients and managers
    let nclients = match rng.below(10) {
        0 => 1,
        1..=3 => 2,
        4..=6 => 3,
        7..=8 => 4,
        _ => 5,
    } as usize;
    let mode = rng.below(100);
    let mut clients: Vec<u8> = Vec::new();
    let all_global = match prop {
        Prop::C10 => mode < 75,
        _ => mode < 35,
    };
    for i in 0..nclients {
        let m = if all_global {
            0
        } else if mode < 70 {
            1
        } else {
            rng.below(3) as u8
        };
        let m = if prop == Prop::C10 && i == 0 { 0 } else { m };
        clients.push(m);
    }

    // swarm: operation mix
    let fault_level: u32 = match rng.below(100) {
        0..=29 => 0,
        30..=64 => 1,
        65..=91 => 3,
        _ => 8,
    };
    let mut w: Vec<u32> = Vec::new();
    for &op in ALL_OPS {
        let mut x = base_weight(op) * 4;
        // random per-run emphasis
        x = match rng.below(12) {
            0 => 0,
            1 | 2 => x / 2,
            3..=8 => x,
            9 | 10 => x * 2,
            _ => x * 4,
        };
        if op.cat() == Cat::Fault {
            x = x * fault_level / 2;
        }
        x *= boost(prop, op);
        // the property's own observables are never switched off
        if boost(prop, op) > 1 && x == 0 {
            x = base_weight(op) * 4 * boost(prop, op);
        }
        w.push(x);
    }
    let idiom_rate = match prop {
        Prop::C05 | Prop::C18 | Prop::C16 => 120 + rng.below(200) as u32,
        _ => rng.below(160) as u32,
    };
    // most runs are short; one in sixteen is long (ids in the hundreds, deep histories)
    let idiom_rate = if alpha.singles.len() > 200 { idiom_rate.max(60) } else { idiom_rate };
    let max_steps = if alpha.k() > 60 {
        // every step is expensive over a wide alphabet: keep such sessions short
        20 + rng.below(100) as usize
    } else if rng.chance(1, 160) {
        // a very long session: ids in the thousands
        600 + rng.below(900) as usize
    } else if rng.chance(1, 16) {
        100 + rng.below(151) as usize
    } else {
        20 + rng.below(61) as usize
    };
    let big_loops = rng.chance(1, 4);
    let mid_loops = rng.chance(1, 3);

    let mut g = Gen {
        rng: &mut rng,
        prop,
        nsingles: alpha.singles.len() as u32,
        single_cells: alpha.singles.iter().map(|&c| c as u32).collect(),
        ncells: alpha.k() as u32,
        pool: vec![3; nclients],
        mgr: clients.clone(),
        w,
        steps: Vec::new(),
        idiom_rate,
        big_loops,
        mid_loops,
        force_many: false,
        idiom_kinds: std::env::var("SMTSIM_DEBUG_IDIOM_KINDS").ok().and_then(|x| x.parse().ok()).unwrap_or(31),
        burst: 0,
        burst_client: 0,
        burst_done: false,
        max_steps,
    };

    // scheduler: per-client activity weights, occasional bursts
    let act: Vec<u32> = (0..nclients).map(|_| 1 + g.rng.below(4) as u32).collect();
    let mut current = g.rng.weighted(&act);
    let mut forced = g.nsingles >= 17;
    let mut boundary_at: Option<usize> = if g.rng.chance(1, 32) {
        let third = (g.max_steps / 3).max(1);
        Some(third + g.rng.below(third as u64) as usize)
    } else {
        None
    };
    while g.steps.len() < g.max_steps {
        if let Some(at) = boundary_at {
            if g.steps.len() >= at {
                // swarm feature of ~3 % of the runs: in the middle of the session the id counter of
                // this client's manager is brought to a power-of-two boundary (see Ballast)
                boundary_at = None;
                let kind = 60_000 + g.rng.below(8_000) as u32;
                let base = g.rng.below(0x20000) as u32;
                g.push(Step::new(current as u8, OpKind::Ballast).a(kind, base, 0));
                continue;
            }
        }
        if forced {
            // a wide alphabet is there to be used: start with a many-piece character class
            forced = false;
            g.force_many = true;
            g.idiom(current);
            g.force_many = false;
            continue;
        }
        if !g.rng.chance(1, 3) {
            current = g.rng.weighted(&act);
        }
        let c = current;
        if g.rng.below(1000) < g.idiom_rate as u64 {
            g.idiom(c);
            continue;
        }
        // after a ballast that brings the id counter to a power-of-two boundary: a burst of fresh
        // constructions and of queries on old and new terms by the same client
        if let Some(last) = g.steps.last() {
            if last.op == OpKind::Ballast && last.a[0] >= 60_000 && g.burst == 0 && !g.burst_done {
                g.burst = 14 + g.rng.below(10) as u32;
                g.burst_client = last.client as usize;
                g.burst_done = true;
            }
            if last.op != OpKind::Ballast {
                g.burst_done = false;
            }
        }
        if g.burst > 0 {
            let c = g.burst_client;
            g.burst -= 1;
            let op = [
                OpKind::Char, OpKind::Str, OpKind::Concat, OpKind::Union, OpKind::Inter, OpKind::Compl,
                OpKind::Star, OpKind::StrInRe, OpKind::StrInRe, OpKind::IsEmpty, OpKind::GetString,
                OpKind::StartChar, OpKind::Compile, OpKind::Closure, OpKind::IncludedIn, OpKind::CharDeriv,
                OpKind::ClassInfo, OpKind::Reissue, OpKind::Replace, OpKind::TryCompile,
            ][g.rng.below(20) as usize];
            let global = g.mgr[c] == 0;
            if op != OpKind::Replace || global {
                g.gen_op(c, op);
            }
            current = c;
            continue;
        }
        // draw an operation; a few are only available on the thread-local manager
        let mut tries = 0;
        loop {
            let i = g.rng.weighted(&g.w);
            let op = ALL_OPS[i];
            let global = g.mgr[c] == 0;
            let ok = match op {
                OpKind::Replace | OpKind::ReplaceAll | OpKind::Reentrant => global,
                _ => true,
            };
            tries += 1;
            if ok || tries > 20 {
                if ok {
                    g.gen_op(c, op);
                }
                break;
            }
        }
    }
    let _ = g.prop;
    let steps = g.steps;
    Trace {
        seed,
        cuts,
        clients,
        steps,
    }
}
