//! Minimal JSON writer (no third-party crates).

#[derive(Clone, Debug)]
pub enum J {
    Int(i64),
    Num(f64),
    Str(String),
    Bool(bool),
    Arr(Vec<J>),
    Obj(Vec<(String, J)>),
}

pub fn s(x: &str) -> J {
    J::Str(x.to_string())
}

pub fn obj(v: Vec<(&str, J)>) -> J {
    J::Obj(v.into_iter().map(|(k, v)| (k.to_string(), v)).collect())
}

fn esc(x: &str, out: &mut String) {
    out.push('"');
    for c in x.chars() {
        match c {
            '"' => out.push_str("\\\""),
            '\\' => out.push_str("\\\\"),
            '\n' => out.push_str("\\n"),
            '\r' => out.push_str("\\r"),
            '\t' => out.push_str("\\t"),
            c if (c as u32) < 0x20 => out.push_str(&format!("\\u{:04x}", c as u32)),
            c => out.push(c),
        }
    }
    out.push('"');
}

impl J {
    pub fn write(&self, out: &mut String, indent: usize) {
        let pad = |out: &mut String, n: usize| {
            for _ in 0..n {
                out.push(' ');
            }
        };
        match self {
            J::Int(i) => out.push_str(&i.to_string()),
            J::Num(f) => {
                if f.is_finite() {
                    out.push_str(&format!("{:.3}", f))
                } else {
                    out.push_str("0")
                }
            }
            J::Str(x) => esc(x, out),
            J::Bool(b) => out.push_str(if *b { "true" } else { "false" }),
            J::Arr(v) => {
                if v.is_empty() {
                    out.push_str("[]");
                    return;
                }
                out.push_str("[\n");
                for (i, x) in v.iter().enumerate() {
                    pad(out, indent + 1);
                    x.write(out, indent + 1);
                    if i + 1 < v.len() {
                        out.push(',');
                    }
                    out.push('\n');
                }
                pad(out, indent);
                out.push(']');
            }
            J::Obj(v) => {
                if v.is_empty() {
                    out.push_str("{}");
                    return;
                }
                out.push_str("{\n");
                for (i, (k, x)) in v.iter().enumerate() {
                    pad(out, indent + 1);
                    esc(k, out);
                    out.push_str(": ");
                    x.write(out, indent + 1);
                    if i + 1 < v.len() {
                        out.push(',');
                    }
                    out.push('\n');
                }
                pad(out, indent);
                out.push('}');
            }
        }
    }
    pub fn to_string(&self) -> String {
        let mut o = String::new();
        self.write(&mut o, 0);
        o.push('\n');
        o
    }
}
