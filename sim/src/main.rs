mod ast;
mod calls;
mod dfa;
mod exec;
mod gen;
mod model;
mod queries;
mod rng;
mod trace;

use gen::Prop;

fn main() {
    std::panic::set_hook(Box::new(|_| {}));
    let args: Vec<String> = std::env::args().collect();
    let cmd = args.get(1).map(|s| s.as_str()).unwrap_or("help");
    match cmd {
        "one" => {
            let prop = Prop::from_name(&args[2]).expect("property");
            let seed: u64 = args[3].parse().expect("seed");
            let tr = gen::generate(seed, prop);
            let cfg = exec::Config { props: prop.bit(), want_log: true, solo: None };
            let out = exec::run_trace(&tr, &cfg);
            print!("{}", tr.to_text());
            for l in &out.log { println!("{l}"); }
            println!("violation: {:?}", out.violation);
            println!("harness: {:?} foreign: {:?}", out.harness, out.foreign);
            println!("stats: {:?}", out.stats);
        }
        "bench" => {
            let prop = Prop::from_name(&args[2]).expect("property");
            let n: u64 = args[3].parse().unwrap();
            let t0 = std::time::Instant::now();
            let mut viol = 0; let mut harness = 0; let mut steps = 0; let mut evals = 0u64; let mut foreign = 0;
            let mut rules: std::collections::BTreeMap<String, u64> = Default::default();
            for i in 0..n {
                let tr = gen::generate(rng::mix(12345, i), prop);
                let cfg = exec::Config { props: prop.bit(), want_log: false, solo: None };
                let out = exec::run_trace(&tr, &cfg);
                if let Some(v) = &out.violation { viol += 1; *rules.entry(v.rule.to_string()).or_insert(0) += 1; if viol <= 3 { println!("seed idx {i}: {:?}", v); } }
                if let Some(h) = &out.harness { harness += 1; println!("HARNESS idx {i}: {h}"); }
                if out.foreign.is_some() { foreign += 1; }
                steps += out.steps_done; evals += out.stats.get("evaluations").copied().unwrap_or(0);
            }
            println!("{n} runs in {:?}: violations {viol} harness {harness} foreign {foreign} steps {steps} evals {evals} rules {:?}", t0.elapsed(), rules);
        }
        _ => {
            eprintln!("usage: smtsim one <prop> <seed>");
            std::process::exit(2);
        }
    }
}
