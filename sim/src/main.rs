mod ast;
mod calls;
mod dfa;
mod driver;
mod exec;
mod gen;
mod json;
mod model;
mod queries;
mod rng;
mod runner;
mod shrink;
mod trace;

use gen::Prop;

fn usage() -> ! {
    eprintln!(
        "usage:
  smtsim check <C01|C02|C03|C05|C07|C10|C16|C18|C19> <quick|thorough>
  smtsim replay <file>
  smtsim determinism [runs-per-property]
  smtsim one <prop> <seed> [--log]        run one seed (with replicas), print trace, log, verdict
  smtsim bench <prop> <n>                 in-process loop, no evidence
  smtsim worker ...                       (internal)"
    );
    std::process::exit(2);
}

fn main() {
    // panics of the code under test are caught and classified; keep stderr quiet
    std::panic::set_hook(Box::new(|_| {}));
    let args: Vec<String> = std::env::args().collect();
    let cmd = args.get(1).map(|s| s.as_str()).unwrap_or("help");
    let code = match cmd {
        "check" => {
            let prop = args.get(2).and_then(|p| Prop::from_name(p)).unwrap_or_else(|| usage());
            let tier = args
                .get(3)
                .cloned()
                .or_else(|| std::env::var("VERIF_TIER").ok())
                .unwrap_or_else(|| "quick".into());
            driver::cmd_check(prop, &tier)
        }
        "worker" => driver::cmd_worker(&args[2..]),
        "crashprobe" => {
            let prop = args.get(2).and_then(|p| Prop::from_name(p)).unwrap_or_else(|| usage());
            let seed: u64 = args.get(3).and_then(|x| x.parse().ok()).unwrap_or_else(|| usage());
            driver::cmd_crashprobe(prop, seed, args.get(4).unwrap_or_else(|| usage()))
        }
        "shrink" => driver::cmd_shrink(
            args.get(2).unwrap_or_else(|| usage()),
            args.get(3).unwrap_or_else(|| usage()),
            args.get(4).and_then(|x| x.parse().ok()).unwrap_or(100),
        ),
        "exec-trace" => driver::cmd_exec_trace(args.get(2).unwrap_or_else(|| usage())),
        "replay" => driver::cmd_replay(args.get(2).unwrap_or_else(|| usage())),
        "determinism" => {
            let n = args.get(2).and_then(|x| x.parse().ok()).unwrap_or(2000);
            driver::cmd_determinism(n)
        }
        "one" => {
            let prop = args.get(2).and_then(|p| Prop::from_name(p)).unwrap_or_else(|| usage());
            let seed: u64 = match args.get(3) {
                Some(x) if x.starts_with("idx:") => {
                    let base = std::env::var("VERIF_SEED").ok().and_then(|x| x.parse().ok()).unwrap_or(driver::DEFAULT_SEED);
                    driver::run_seed(base, prop, x[4..].parse().unwrap_or_else(|_| usage()))
                }
                Some(x) => x.parse().unwrap_or_else(|_| usage()),
                None => usage(),
            };
            let tr = gen::generate(seed, prop);
            if args.iter().any(|a| a == "--live") {
                exec::LIVE.store(1, std::sync::atomic::Ordering::Relaxed);
                eprint!("{}", tr.to_text());
            }
            let c = runner::check_trace(&tr, prop.bit(), true);
            print!("{}", tr.to_text());
            if args.iter().any(|a| a == "--log") {
                for l in &c.out.log {
                    println!("{l}");
                }
            }
            println!("violation: {:?}", c.out.violation);
            println!("harness: {:?} foreign: {:?}", c.out.harness, c.out.foreign);
            println!("stats: {:?}", c.out.stats);
            if c.out.violation.is_some() { 1 } else { 0 }
        }
        "bench" => {
            let prop = args.get(2).and_then(|p| Prop::from_name(p)).unwrap_or_else(|| usage());
            let n: u64 = args.get(3).and_then(|x| x.parse().ok()).unwrap_or(100);
            let t0 = std::time::Instant::now();
            let (mut viol, mut harness, mut foreign, mut steps, mut evals) = (0, 0, 0, 0, 0u64);
            let mut rules: std::collections::BTreeMap<String, u64> = Default::default();
            let mut stats: std::collections::BTreeMap<&'static str, u64> = Default::default();
            for i in 0..n {
                let seed = driver::run_seed(driver::DEFAULT_SEED, prop, i);
                let tr = gen::generate(seed, prop);
                let t1 = std::time::Instant::now();
                let c = runner::check_trace(&tr, prop.bit(), false);
                let el = t1.elapsed().as_micros() as u64;
                let bucket: &'static str = match (tr.cuts.len(), tr.steps.len()) {
                    (k, _) if k > 200 => "t_us.very_wide",
                    (k, _) if k > 30 => "t_us.wide",
                    (_, n) if n > 500 => "t_us.very_long",
                    (_, n) if n > 95 => "t_us.long",
                    _ => "t_us.normal",
                };
                *stats.entry(bucket).or_insert(0) += el;
                *stats.entry(match bucket { "t_us.very_wide" => "n.very_wide", "t_us.wide" => "n.wide", "t_us.very_long" => "n.very_long", "t_us.long" => "n.long", _ => "n.normal" }).or_insert(0) += 1;
                let out = c.out;
                if let Some(v) = &out.violation {
                    viol += 1;
                    *rules.entry(v.rule.to_string()).or_insert(0) += 1;
                    if viol <= 3 {
                        println!("seed {seed}: {:?}", v);
                    }
                }
                if let Some(h) = &out.harness {
                    harness += 1;
                    println!("HARNESS seed {seed}: {h}");
                }
                if out.foreign.is_some() {
                    foreign += 1;
                }
                for (k, v) in &out.stats {
                    *stats.entry(k).or_insert(0) += v;
                }
                steps += out.steps_done;
                evals += out.stats.get("evaluations").copied().unwrap_or(0);
            }
            println!(
                "{n} runs in {:?}: violations {viol} harness {harness} foreign {foreign} steps {steps} evals {evals} rules {:?}",
                t0.elapsed(),
                rules
            );
            for (k, v) in &stats {
                println!("  {k} = {v}");
            }
            0
        }
        _ => usage(),
    };
    std::process::exit(code);
}
