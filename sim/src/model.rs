//! Read-only view of the implementation's terms (through the guarded hooks) as reference-model
//! objects: Ast for R-match, canonical DFA for R-dfa. Memoised per manager by term address.

use std::collections::HashMap;
use std::sync::Arc;

use aws_smt_strings::regular_expressions::{BaseRegLan, RegLan};

use crate::ast::{self, Ast, A};
use crate::dfa::Dfa;
use crate::trace::Alphabet;

pub const BIG_LOOP: u32 = 1 << 16;

#[derive(Debug)]
pub struct TermInfo {
    pub ast: A,
    /// None = opaque (over the reference model's caps)
    pub dfa: Option<Arc<Dfa>>,
    /// some loop bound >= 2^16 occurs in the term: arithmetic overflow panics are excused
    pub big: bool,
    /// the term contains a character range whose end points are not cell boundaries
    pub alien: bool,
    /// number of distinct sub-terms (size of the DAG)
    pub size: u32,
    /// rough estimate of the work an automaton construction needs for the term (sum over
    /// concatenation / union / intersection, product with loop counters, saturating)
    pub cost: u64,
}

/// above this estimate a term is opaque for R-dfa, and searches over its whole derivative graph
/// (compile, closure, emptiness, witness) are not requested: they are legitimately slow
pub const COST_CAP: u64 = 3_000;

pub type Memo = HashMap<usize, Arc<TermInfo>>;

pub fn key(r: RegLan) -> usize {
    r as *const _ as usize
}

pub fn term_info(r: RegLan, alpha: &Alphabet, memo: &mut Memo) -> Arc<TermInfo> {
    if let Some(x) = memo.get(&key(r)) {
        return x.clone();
    }
    let k = alpha.k();
    let info = match r.verif_expr() {
        BaseRegLan::Empty => TermInfo {
            ast: ast::empty(),
            dfa: Some(Arc::new(Dfa::empty(k))),
            big: false,
            alien: false,
            size: 1,
            cost: 1,
        },
        BaseRegLan::Epsilon => TermInfo {
            ast: ast::eps(),
            dfa: Some(Arc::new(Dfa::eps(k))),
            big: false,
            alien: false,
            size: 1,
            cost: 1,
        },
        BaseRegLan::Range(set) => {
            let (s, e) = set.verif_bounds();
            let (s2, e2) = (s.min(0x2FFFF), e.min(0x2FFFF));
            let lo = alpha.cell_of(s2);
            let hi = alpha.cell_of(e2);
            let aligned = s <= e && e <= 0x2FFFF && alpha.lo(lo) == s && alpha.hi(hi) == e;
            TermInfo {
                ast: ast::cells(lo as crate::dfa::Cell, hi as crate::dfa::Cell),
                dfa: if aligned {
                    Some(Arc::new(Dfa::cells(k, lo, hi)))
                } else {
                    None
                },
                big: false,
                alien: !aligned,
                size: 1,
                cost: 1,
            }
        }
        BaseRegLan::Concat(a, b) => {
            let ia = term_info(a, alpha, memo);
            let ib = term_info(b, alpha, memo);
            let dfa = match (&ia.dfa, &ib.dfa) {
                (Some(x), Some(y)) if ia.cost.saturating_add(ib.cost) <= COST_CAP => {
                    x.concat(y).map(Arc::new)
                }
                _ => None,
            };
            TermInfo {
                ast: ast::concat(&ia.ast, &ib.ast),
                dfa,
                big: ia.big || ib.big,
                alien: ia.alien || ib.alien,
                size: 1 + ia.size + ib.size,
                cost: ia.cost.saturating_add(ib.cost),
            }
        }
        BaseRegLan::Loop(e, range) => {
            let ie = term_info(e, alpha, memo);
            let (lo, hi) = range.verif_bounds();
            let cost = ie
                .cost
                .saturating_mul(hi.unwrap_or(lo).max(lo).max(1) as u64)
                .saturating_add(1);
            let dfa = match &ie.dfa {
                Some(x) if cost <= COST_CAP => x.repeat(lo, hi).map(Arc::new),
                _ => None,
            };
            TermInfo {
                ast: ast::looped(&ie.ast, lo, hi),
                dfa,
                big: ie.big || lo >= BIG_LOOP || hi.map(|h| h >= BIG_LOOP).unwrap_or(false),
                alien: ie.alien,
                size: 1 + ie.size,
                cost,
            }
        }
        BaseRegLan::Complement(e) => {
            let ie = term_info(e, alpha, memo);
            TermInfo {
                ast: ast::compl(&ie.ast),
                dfa: ie.dfa.as_ref().map(|x| Arc::new(x.complement())),
                big: ie.big,
                alien: ie.alien,
                size: 1 + ie.size,
                cost: ie.cost.saturating_add(1),
            }
        }
        BaseRegLan::Union(list) => {
            let infos: Vec<Arc<TermInfo>> =
                list.iter().map(|x| term_info(x, alpha, memo)).collect();
            let cost = infos.iter().fold(1u64, |a, i| a.saturating_add(i.cost));
            let mut dfa = if cost <= COST_CAP { Some(Dfa::empty(k)) } else { None };
            for i in &infos {
                dfa = match (dfa, &i.dfa) {
                    (Some(acc), Some(x)) => acc.union(x),
                    _ => None,
                };
            }
            TermInfo {
                ast: ast::union(infos.iter().map(|i| i.ast.clone()).collect()),
                dfa: dfa.map(Arc::new),
                big: infos.iter().any(|i| i.big),
                alien: infos.iter().any(|i| i.alien),
                size: 1 + infos.iter().map(|i| i.size).sum::<u32>(),
                cost,
            }
        }
        BaseRegLan::Inter(list) => {
            let infos: Vec<Arc<TermInfo>> =
                list.iter().map(|x| term_info(x, alpha, memo)).collect();
            let cost = infos.iter().fold(1u64, |a, i| a.saturating_add(i.cost));
            let mut dfa = if cost <= COST_CAP { Some(Dfa::full(k)) } else { None };
            for i in &infos {
                dfa = match (dfa, &i.dfa) {
                    (Some(acc), Some(x)) => acc.inter(x),
                    _ => None,
                };
            }
            TermInfo {
                ast: ast::inter(infos.iter().map(|i| i.ast.clone()).collect()),
                dfa: dfa.map(Arc::new),
                big: infos.iter().any(|i| i.big),
                alien: infos.iter().any(|i| i.alien),
                size: 1 + infos.iter().map(|i| i.size).sum::<u32>(),
                cost,
            }
        }
    };
    let info = Arc::new(info);
    memo.insert(key(r), info.clone());
    info
}

/// structural description of a term for logs: Display of the crate plus the id
pub fn show(r: RegLan) -> String {
    let s = format!("{}", r);
    let s: String = if s.chars().count() > 120 {
        let t: String = s.chars().take(117).collect();
        format!("{t}...")
    } else {
        s
    };
    format!("#{}:{}", r.verif_id(), s)
}

pub fn op_count(a: &Ast) -> usize {
    match a {
        Ast::Union(v) | Ast::Inter(v) => v.len(),
        _ => 1,
    }
}

/// bound of the sizing probe (states of the derivative automaton in a scratch manager)
pub const PROBE_CAP: usize = 600;

pub fn copy_term(
    r: RegLan,
    m: &mut aws_smt_strings::regular_expressions::ReManager,
    memo: &mut HashMap<usize, RegLan>,
) -> RegLan {
    if let Some(&x) = memo.get(&key(r)) {
        return x;
    }
    let x = match r.verif_expr() {
        BaseRegLan::Empty => m.empty(),
        BaseRegLan::Epsilon => m.epsilon(),
        BaseRegLan::Range(set) => m.char_set(*set),
        BaseRegLan::Concat(a, b) => {
            let a = copy_term(a, m, memo);
            let b = copy_term(b, m, memo);
            m.concat(a, b)
        }
        BaseRegLan::Loop(e, range) => {
            let e = copy_term(e, m, memo);
            m.mk_loop(e, *range)
        }
        BaseRegLan::Complement(e) => {
            let e = copy_term(e, m, memo);
            m.complement(e)
        }
        BaseRegLan::Union(l) => {
            let v: Vec<RegLan> = l.iter().map(|x| copy_term(x, m, memo)).collect();
            m.union_list(v)
        }
        BaseRegLan::Inter(l) => {
            let v: Vec<RegLan> = l.iter().map(|x| copy_term(x, m, memo)).collect();
            m.inter_list(v)
        }
    };
    memo.insert(key(r), x);
    x
}

fn dag_size(r: RegLan, seen: &mut std::collections::HashSet<usize>) -> usize {
    if !seen.insert(key(r)) {
        return 0;
    }
    1 + match r.verif_expr() {
        BaseRegLan::Concat(a, b) => dag_size(a, seen) + dag_size(b, seen),
        BaseRegLan::Loop(e, _) | BaseRegLan::Complement(e) => dag_size(e, seen),
        BaseRegLan::Union(l) | BaseRegLan::Inter(l) => {
            l.iter().map(|x| dag_size(x, seen)).sum::<usize>()
        }
        _ => 0,
    }
}

/// a derivative with more distinct sub-terms than this makes the term "heavy"
pub const PROBE_NODE_CAP: usize = 120;
pub const PROBE_ROOT_NODE_CAP: usize = 3_000;
/// sum over the enumerated derivatives of (distinct sub-terms x derivative classes)
pub const PROBE_WORK_CAP: u64 = 1_500_000;

/// Enumerate the derivatives of `c` on manager `m`, giving up at PROBE_CAP terms, at the first
/// derivative with more than PROBE_NODE_CAP distinct sub-terms (the root may have up to
/// PROBE_ROOT_NODE_CAP) or when the accumulated work estimate passes PROBE_WORK_CAP.
/// Some(n): n derivatives, all small. None: heavy.
fn enumerate_bounded(m: &mut aws_smt_strings::regular_expressions::ReManager, c: RegLan) -> Option<usize> {
    let mut n = 0usize;
    let mut work = 0u64;
    let mut it = m.iter_derivatives(c);
    loop {
        match it.next() {
            None => return Some(n),
            Some(x) => {
                n += 1;
                if n > PROBE_CAP {
                    return None;
                }
                let x: RegLan = unsafe { &*(x as *const aws_smt_strings::regular_expressions::RE) };
                let mut seen = std::collections::HashSet::new();
                let size = dag_size(x, &mut seen);
                let cap = if n == 1 { PROBE_ROOT_NODE_CAP } else { PROBE_NODE_CAP };
                work += size as u64 * (x.num_deriv_classes() as u64 + 1);
                if size > cap || work > PROBE_WORK_CAP {
                    return None;
                }
            }
        }
    }
}

/// largest finite loop counter in the term (0 if there is none)
pub fn max_counter(r: RegLan, seen: &mut std::collections::HashSet<usize>) -> u32 {
    if !seen.insert(key(r)) {
        return 0;
    }
    match r.verif_expr() {
        BaseRegLan::Concat(a, b) => max_counter(a, seen).max(max_counter(b, seen)),
        BaseRegLan::Loop(e, range) => {
            let (i, j) = range.verif_bounds();
            let here = match j { None => i, Some(j) => i.max(j) };
            here.max(max_counter(e, seen))
        }
        BaseRegLan::Complement(e) => max_counter(e, seen),
        BaseRegLan::Union(l) | BaseRegLan::Inter(l) => l.iter().map(|x| max_counter(x, seen)).max().unwrap_or(0),
        _ => 0,
    }
}

/// bound of the bounded-liveness probe for tiny terms (see DEEP_* in queries.rs)
pub const DEEP_CAP: usize = 20_000;

pub enum Deep {
    /// the closure has this many terms
    Closed(usize),
    /// some derivative grew well beyond the root: legitimately heavy, no verdict
    Grew,
    /// more than DEEP_CAP distinct derivatives, all of them about as small as the root
    Overflow,
    Panicked,
}

/// Bounded-liveness probe: enumerate the derivatives of a copy of `r` in a scratch manager up to
/// DEEP_CAP terms, giving up without a verdict as soon as a derivative is much larger than the root.
pub fn deep_probe(r: RegLan) -> Deep {
    let res = crate::calls::guarded(|| {
        let mut m = aws_smt_strings::regular_expressions::ReManager::new();
        let mut memo = HashMap::new();
        let c = copy_term(r, &mut m, &mut memo);
        let root = dag_size(c, &mut std::collections::HashSet::new());
        let mut n = 0usize;
        let mut it = m.iter_derivatives(c);
        loop {
            match it.next() {
                None => return Deep::Closed(n),
                Some(x) => {
                    n += 1;
                    if n > DEEP_CAP {
                        return Deep::Overflow;
                    }
                    let x: RegLan = unsafe { &*(x as *const aws_smt_strings::regular_expressions::RE) };
                    let size = dag_size(x, &mut std::collections::HashSet::new());
                    if size > 4 * root + 16 {
                        return Deep::Grew;
                    }
                }
            }
        }
    });
    res.unwrap_or(Deep::Panicked)
}

/// Sizing probe, first stage: rebuild the term in a scratch manager (the observed manager is not
/// touched) and enumerate its derivatives there under the caps. A cheap filter only: the copy goes
/// through the smart constructors again and may normalise differently from the observed term
/// (e.g. a loop of a loop that `concat` created without flattening), so passing it proves nothing.
pub fn sizing_probe(r: RegLan) -> Option<usize> {
    let res = crate::calls::guarded(|| {
        let mut m = aws_smt_strings::regular_expressions::ReManager::new();
        let mut memo = HashMap::new();
        let c = copy_term(r, &mut m, &mut memo);
        enumerate_bounded(&mut m, c)
    });
    match res {
        Ok(x) => x,
        Err(_) => None,
    }
}

/// Sizing probe, second stage, on the observed manager itself: the same bounded enumeration on
/// the very term (same normal forms, so the bound is sound for the searches that follow), after
/// which exactly the derivative-cache entries it created are evicted again. What stays behind is
/// what an abandoned iterator of another client leaves: the derivative terms exist in the store.
pub fn sizing_probe_in_place(m: &mut aws_smt_strings::regular_expressions::ReManager, r: RegLan) -> Option<usize> {
    use aws_smt_strings::character_sets::ClassId;
    let mut before: std::collections::HashSet<(usize, ClassId)> = std::collections::HashSet::new();
    m.verif_evict_deriv_cache(|id, cid| {
        before.insert((id, cid));
        true
    });
    let res = crate::calls::guarded(|| enumerate_bounded(m, r));
    m.verif_evict_deriv_cache(|id, cid| before.contains(&(id, cid)));
    match res {
        Ok(x) => x,
        Err(_) => None,
    }
}

/// code points around the end points of character ranges of a term that are not cell boundaries
pub fn alien_points(r: RegLan, alpha: &Alphabet, out: &mut Vec<u32>, seen: &mut std::collections::HashSet<usize>) {
    if !seen.insert(key(r)) {
        return;
    }
    match r.verif_expr() {
        BaseRegLan::Range(set) => {
            let (s, e) = set.verif_bounds();
            let (s2, e2) = (s.min(0x2FFFF), e.min(0x2FFFF));
            let aligned = s <= e && e <= 0x2FFFF && alpha.lo(alpha.cell_of(s2)) == s && alpha.hi(alpha.cell_of(e2)) == e;
            if !aligned {
                for p in [s2.saturating_sub(1), s2, e2, (e2 + 1).min(0x2FFFF)] {
                    out.push(p);
                }
            }
        }
        BaseRegLan::Concat(a, b) => {
            alien_points(a, alpha, out, seen);
            alien_points(b, alpha, out, seen);
        }
        BaseRegLan::Loop(e, _) | BaseRegLan::Complement(e) => alien_points(e, alpha, out, seen),
        BaseRegLan::Union(l) | BaseRegLan::Inter(l) => {
            for x in l.iter() {
                alien_points(x, alpha, out, seen);
            }
        }
        _ => {}
    }
}

/// the same term rebuilt on a manager without any history
pub fn fresh_copy(r: RegLan) -> Option<(aws_smt_strings::regular_expressions::ReManager, RegLan)> {
    crate::calls::guarded(|| {
        let mut m = aws_smt_strings::regular_expressions::ReManager::new();
        let mut memo = HashMap::new();
        let c = copy_term(r, &mut m, &mut memo);
        (m, c)
    })
    .ok()
}
