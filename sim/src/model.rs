//! Read-only view of the implementation's terms (through the guarded hooks) as reference-model
//! objects: Ast for R-match, canonical DFA for R-dfa. Memoised per manager by term address.

use std::collections::HashMap;
use std::sync::Arc;

use aws_smt_strings::regular_expressions::{BaseRegLan, RegLan};

use crate::ast::{self, Ast, A};
use crate::dfa::Dfa;
use crate::trace::Alphabet;

pub const BIG_LOOP: u32 = 1 << 16;

#[derive(Debug)]
pub struct TermInfo {
    pub ast: A,
    /// None = opaque (over the reference model's caps)
    pub dfa: Option<Arc<Dfa>>,
    /// some loop bound >= 2^16 occurs in the term: arithmetic overflow panics are excused
    pub big: bool,
    /// the term contains a character range whose end points are not cell boundaries
    pub alien: bool,
    /// number of distinct sub-terms (size of the DAG)
    pub size: u32,
}

pub type Memo = HashMap<usize, Arc<TermInfo>>;

pub fn key(r: RegLan) -> usize {
    r as *const _ as usize
}

pub fn term_info(r: RegLan, alpha: &Alphabet, memo: &mut Memo) -> Arc<TermInfo> {
    if let Some(x) = memo.get(&key(r)) {
        return x.clone();
    }
    let k = alpha.k();
    let info = match r.verif_expr() {
        BaseRegLan::Empty => TermInfo {
            ast: ast::empty(),
            dfa: Some(Arc::new(Dfa::empty(k))),
            big: false,
            alien: false,
            size: 1,
        },
        BaseRegLan::Epsilon => TermInfo {
            ast: ast::eps(),
            dfa: Some(Arc::new(Dfa::eps(k))),
            big: false,
            alien: false,
            size: 1,
        },
        BaseRegLan::Range(set) => {
            let (s, e) = set.verif_bounds();
            let (s2, e2) = (s.min(0x2FFFF), e.min(0x2FFFF));
            let lo = alpha.cell_of(s2);
            let hi = alpha.cell_of(e2);
            let aligned = s <= e && e <= 0x2FFFF && alpha.lo(lo) == s && alpha.hi(hi) == e;
            TermInfo {
                ast: ast::cells(lo as u8, hi as u8),
                dfa: if aligned {
                    Some(Arc::new(Dfa::cells(k, lo, hi)))
                } else {
                    None
                },
                big: false,
                alien: !aligned,
                size: 1,
            }
        }
        BaseRegLan::Concat(a, b) => {
            let ia = term_info(a, alpha, memo);
            let ib = term_info(b, alpha, memo);
            let dfa = match (&ia.dfa, &ib.dfa) {
                (Some(x), Some(y)) => x.concat(y).map(Arc::new),
                _ => None,
            };
            TermInfo {
                ast: ast::concat(&ia.ast, &ib.ast),
                dfa,
                big: ia.big || ib.big,
                alien: ia.alien || ib.alien,
                size: 1 + ia.size + ib.size,
            }
        }
        BaseRegLan::Loop(e, range) => {
            let ie = term_info(e, alpha, memo);
            let (lo, hi) = range.verif_bounds();
            let dfa = match &ie.dfa {
                Some(x) => x.repeat(lo, hi).map(Arc::new),
                None => None,
            };
            TermInfo {
                ast: ast::looped(&ie.ast, lo, hi),
                dfa,
                big: ie.big || lo >= BIG_LOOP || hi.map(|h| h >= BIG_LOOP).unwrap_or(false),
                alien: ie.alien,
                size: 1 + ie.size,
            }
        }
        BaseRegLan::Complement(e) => {
            let ie = term_info(e, alpha, memo);
            TermInfo {
                ast: ast::compl(&ie.ast),
                dfa: ie.dfa.as_ref().map(|x| Arc::new(x.complement())),
                big: ie.big,
                alien: ie.alien,
                size: 1 + ie.size,
            }
        }
        BaseRegLan::Union(list) => {
            let infos: Vec<Arc<TermInfo>> =
                list.iter().map(|x| term_info(x, alpha, memo)).collect();
            let mut dfa = Some(Dfa::empty(k));
            for i in &infos {
                dfa = match (dfa, &i.dfa) {
                    (Some(acc), Some(x)) => acc.union(x),
                    _ => None,
                };
            }
            TermInfo {
                ast: ast::union(infos.iter().map(|i| i.ast.clone()).collect()),
                dfa: dfa.map(Arc::new),
                big: infos.iter().any(|i| i.big),
                alien: infos.iter().any(|i| i.alien),
                size: 1 + infos.iter().map(|i| i.size).sum::<u32>(),
            }
        }
        BaseRegLan::Inter(list) => {
            let infos: Vec<Arc<TermInfo>> =
                list.iter().map(|x| term_info(x, alpha, memo)).collect();
            let mut dfa = Some(Dfa::full(k));
            for i in &infos {
                dfa = match (dfa, &i.dfa) {
                    (Some(acc), Some(x)) => acc.inter(x),
                    _ => None,
                };
            }
            TermInfo {
                ast: ast::inter(infos.iter().map(|i| i.ast.clone()).collect()),
                dfa: dfa.map(Arc::new),
                big: infos.iter().any(|i| i.big),
                alien: infos.iter().any(|i| i.alien),
                size: 1 + infos.iter().map(|i| i.size).sum::<u32>(),
            }
        }
    };
    let info = Arc::new(info);
    memo.insert(key(r), info.clone());
    info
}

/// structural description of a term for logs: Display of the crate plus the id
pub fn show(r: RegLan) -> String {
    let s = format!("{}", r);
    let s: String = if s.chars().count() > 120 {
        let t: String = s.chars().take(117).collect();
        format!("{t}...")
    } else {
        s
    };
    format!("#{}:{}", r.verif_id(), s)
}

pub fn op_count(a: &Ast) -> usize {
    match a {
        Ast::Union(v) | Ast::Inter(v) => v.len(),
        _ => 1,
    }
}
