//! Query steps and their oracles (C01 b, C02, C03 b/c, C05, C10, C16 a, C18, C19), fault steps.

use std::collections::{HashMap, HashSet};
use std::sync::Arc;

use aws_smt_strings::automata::Automaton;
use aws_smt_strings::character_sets::ClassId;
use aws_smt_strings::regular_expressions::RegLan;
use aws_smt_strings::smt_regular_expressions as smt;

use crate::ast::rmatch;
use crate::calls::*;
use crate::dfa::{Cell, Dfa};
use crate::exec::*;
use crate::gen::Prop;
use crate::model::*;
use crate::rng::{mix, Rng};
use crate::trace::*;

pub const CLOSURE_CAP: usize = 100_000;
/// strings longer than this are only fed to terms that pass the sizing probe
pub const LONG_STRING: usize = 24;

fn nontrivial(d: &Option<Arc<Dfa>>) -> bool {
    d.as_ref()
        .map(|d| !d.is_empty_lang() && !d.is_full_lang())
        .unwrap_or(true)
}

fn fp(d: &Option<Arc<Dfa>>) -> u64 {
    d.as_ref().map(|d| d.fingerprint()).unwrap_or(0)
}

impl<'t> World<'t> {
    pub(crate) fn step_query(&mut self, ci: usize, st: &Step) -> Result<(), Stop> {
        use OpKind::*;
        let mi = self.clients[ci].mgr;
        let hi = self.handle(ci, st.a[0]);
        let e = self.clients[ci].pool[hi].re;
        let info = self.info(mi, e);
        if info.alien {
            self.push_obs(ci, st.op.name(), Obs::Nothing);
            return Ok(());
        }
        if matches!(st.op, IsEmpty | GetString | StartChar | StartClass | Compile | TryCompile | Closure)
            && (info.cost > COST_CAP || info.big || !self.searchable(mi, e))
        {
            // legitimately expensive (e.g. a loop counter of 50 000 means 50 000 states): not requested
            self.bump("heavy_term_queries_skipped");
            if self.on(Prop::C19) && matches!(st.op, Compile | TryCompile | Closure) && !info.big {
                self.tiny_term_liveness(mi, e, &info)?;
            }
            self.push_obs(ci, st.op.name(), Obs::Nothing);
            return Ok(());
        }
        match st.op {
            StrInRe => self.q_str_in_re(ci, st, e, hi),
            IsEmpty => {
                let ms = &mut self.mgrs[mi];
                let r = guarded(|| ms.m.with(|m| m.is_empty_re(e)));
                let got = match r {
                    Ok(b) => b,
                    Err(msg) => {
                        if info.big {
                            self.push_obs(ci, st.op.name(), Obs::Faulted);
                            return Ok(());
                        }
                        return self.judge(Prop::C05, "c05.valid-call-panicked", false, || {
                            format!("is_empty_re({}) panicked: {}", show(e), msg)
                        });
                    }
                };
                self.log(format!("#{} c{} is_empty {} -> {}", self.step_idx, ci, show(e), got));
                if self.on(Prop::C07) {
                    if let Some((mut fm, fe)) = fresh_copy(e) {
                        if let Ok(fgot) = guarded(|| fm.is_empty_re(fe)) {
                            self.eval(Prop::C07, "c07.same-answer-on-fresh-manager", fp(&info.dfa), 1, nontrivial(&info.dfa));
                            self.judge(Prop::C07, "c07.same-answer-on-fresh-manager", fgot == got, || {
                                format!(
                                    "is_empty_re({}) = {} on the manager with history, but {} when the same term is rebuilt on a fresh manager",
                                    show(e), got, fgot
                                )
                            })?;
                        }
                    }
                }
                if self.on(Prop::C05) {
                    if let Some(d) = &info.dfa {
                        self.eval(Prop::C05, "c05.emptiness-exact", d.fingerprint(), 1, !d.is_full_lang());
                        if d.is_empty_lang() && !matches!(info.ast.as_ref(), crate::ast::Ast::Empty) {
                            self.bump("probe.semantically_empty_term");
                        }
                        let expect = d.is_empty_lang();
                        let wit = d.shortest_accepted();
                        self.judge(Prop::C05, "c05.emptiness-exact", got == expect, || {
                            format!(
                                "is_empty_re({}) = {} but the language is {} (shortest member, as cells: {:?})",
                                show(e), got, if expect { "empty" } else { "not empty" }, wit
                            )
                        })?;
                        self.sample(format!("is_empty_re({}) = {}", show(e), got));
                    } else {
                        self.bump("opaque_terms");
                    }
                }
                self.push_obs(ci, st.op.name(), Obs::Bool(got));
                Ok(())
            }
            GetString => {
                let ms = &mut self.mgrs[mi];
                let r = guarded(|| ms.m.with(|m| m.get_string(e)));
                let got = match r {
                    Ok(b) => b,
                    Err(msg) => {
                        if info.big {
                            self.push_obs(ci, st.op.name(), Obs::Faulted);
                            return Ok(());
                        }
                        return self.judge(Prop::C05, "c05.valid-call-panicked", false, || {
                            format!("get_string({}) panicked: {}", show(e), msg)
                        });
                    }
                };
                let txt: Option<Vec<u32>> = got.as_ref().map(|s| s.as_ref().to_vec());
                self.log(format!("#{} c{} get_string {} -> {:x?}", self.step_idx, ci, show(e), txt));
                if self.on(Prop::C07) {
                    if let Some((mut fm, fe)) = fresh_copy(e) {
                        if let Ok(fgot) = guarded(|| fm.get_string(fe).is_some()) {
                            self.eval(Prop::C07, "c07.same-answer-on-fresh-manager", fp(&info.dfa), 3, nontrivial(&info.dfa));
                            let g = got.is_some();
                            self.judge(Prop::C07, "c07.same-answer-on-fresh-manager", fgot == g, || {
                                format!(
                                    "get_string({}) is_some = {} on the manager with history, but {} when the same term is rebuilt on a fresh manager",
                                    show(e), g, fgot
                                )
                            })?;
                        }
                    }
                }
                if self.on(Prop::C05) {
                    let expect_empty = match &info.dfa {
                        Some(d) => Some(d.is_empty_lang()),
                        None => None,
                    };
                    if let Some(ee) = expect_empty {
                        self.eval(Prop::C05, "c05.witness-none-iff-empty", fp(&info.dfa), 2, !info.dfa.as_ref().unwrap().is_full_lang());
                        self.judge(Prop::C05, "c05.witness-none-iff-empty", got.is_none() == ee, || {
                            format!(
                                "get_string({}) = {:x?} but the language is {}",
                                show(e), txt, if ee { "empty" } else { "not empty" }
                            )
                        })?;
                    } else {
                        self.bump("opaque_terms");
                    }
                    if let Some(s) = &got {
                        let w = s.as_ref().to_vec();
                        self.eval(Prop::C05, "c05.witness-is-member", fp(&info.dfa), 3, nontrivial(&info.dfa));
                        let good = s.is_good();
                        self.judge(Prop::C05, "c05.witness-well-formed", good, || {
                            format!("get_string({}) returned the ill-formed string {:x?}", show(e), w)
                        })?;
                        let cells = self.alpha.to_cells(&w);
                        let member = match &info.dfa {
                            Some(d) => d.accepts(&cells),
                            None => rmatch(&info.ast, &cells).unwrap_or(true),
                        };
                        self.judge(Prop::C05, "c05.witness-is-member", member, || {
                            format!("get_string({}) returned {:x?} which is not in the language", show(e), w)
                        })?;
                        let ms = &mut self.mgrs[mi];
                        let s2 = s.clone();
                        let inre = guarded(|| ms.m.with(|m| m.str_in_re(&s2, e)));
                        self.judge(Prop::C05, "c05.witness-accepted-by-str_in_re", inre == Ok(true), || {
                            format!("get_string({}) returned {:x?} but str_in_re says {:?}", show(e), w, inre)
                        })?;
                        let small = info.dfa.as_ref().map(|d| d.n() <= 64).unwrap_or(false) && info.size <= 60;
                        if small {
                            let ms = &mut self.mgrs[mi];
                            let s3 = s.clone();
                            let acc = guarded(|| ms.m.with(|m| m.compile(e).accepts(&s3)));
                            self.judge(Prop::C05, "c05.witness-accepted-by-automaton", acc == Ok(true), || {
                                format!("get_string({}) returned {:x?} but compile(e).accepts says {:?}", show(e), w, acc)
                            })?;
                        }
                        self.sample(format!("get_string({}) = {:x?}", show(e), w));
                    }
                }
                self.push_obs(ci, st.op.name(), Obs::Bool(got.is_some()));
                Ok(())
            }
            StartChar => {
                let c = self.alpha.point(st.a[1] % BAD_BASE);
                let ms = &mut self.mgrs[mi];
                let r = guarded(|| ms.m.with(|m| m.start_char(e, c)));
                let got = match r {
                    Ok(b) => b,
                    Err(msg) => {
                        if info.big {
                            self.push_obs(ci, st.op.name(), Obs::Faulted);
                            return Ok(());
                        }
                        return self.judge(Prop::C18, "c18.valid-call-panicked", false, || {
                            format!("start_char({}, {:x}) panicked: {}", show(e), c, msg)
                        });
                    }
                };
                self.log(format!("#{} c{} start_char {} {:x} -> {}", self.step_idx, ci, show(e), c, got));
                if self.on(Prop::C07) {
                    if let Some((mut fm, fe)) = fresh_copy(e) {
                        if let Ok(fgot) = guarded(|| fm.start_char(fe, c)) {
                            self.eval(Prop::C07, "c07.same-answer-on-fresh-manager", fp(&info.dfa), 2 + c as u64, nontrivial(&info.dfa));
                            self.judge(Prop::C07, "c07.same-answer-on-fresh-manager", fgot == got, || {
                                format!(
                                    "start_char({}, {:x}) = {} on the manager with history, but {} when the same term is rebuilt on a fresh manager",
                                    show(e), c, got, fgot
                                )
                            })?;
                        }
                    }
                }
                if self.on(Prop::C18) {
                    if let Some(d) = &info.dfa {
                        let cell = self.alpha.cell_of(c);
                        let q = d.quotient(cell);
                        let expect = !q.is_empty_lang();
                        self.eval(Prop::C18, "c18.start-char-exact", d.fingerprint(), cell as u64, nontrivial(&info.dfa));
                        self.judge(Prop::C18, "c18.start-char-exact", got == expect, || {
                            format!(
                                "start_char({}, {:x}) = {} but {} member string starts with that character (shortest continuation, cells: {:?})",
                                show(e), c, got, if expect { "some" } else { "no" }, q.shortest_accepted()
                            )
                        })?;
                        self.sample(format!("start_char({}, {:x}) = {}", show(e), c, got));
                    } else {
                        self.bump("opaque_terms");
                    }
                }
                self.push_obs(ci, st.op.name(), Obs::Bool(got));
                Ok(())
            }
            StartClass => {
                let (cid, valid) = self.class_choice(e, st.a[1]);
                let ms = &mut self.mgrs[mi];
                let r = guarded(|| ms.m.with(|m| m.start_class(e, cid)));
                let got = match r {
                    Ok(b) => b,
                    Err(msg) => {
                        if info.big {
                            self.push_obs(ci, st.op.name(), Obs::Faulted);
                            return Ok(());
                        }
                        return self.judge(Prop::C18, "c18.valid-call-panicked", false, || {
                            format!("start_class({}, {:?}) panicked: {}", show(e), cid, msg)
                        });
                    }
                };
                self.log(format!("#{} c{} start_class {} {:?} -> {:?}", self.step_idx, ci, show(e), cid, got));
                let mut obs = Obs::Nothing;
                if self.on(Prop::C18) {
                    if !valid {
                        self.eval(Prop::C18, "c18.start-class-bad-id", 0, 0, false);
                        let ok = matches!(got, Err(aws_smt_strings::errors::Error::BadClassId));
                        self.judge(Prop::C18, "c18.start-class-bad-id", ok, || {
                            format!("start_class({}, {:?}) with an invalid class id returned {:?} instead of BadClassId", show(e), cid, got)
                        })?;
                    } else {
                        let b = match got {
                            Ok(b) => b,
                            Err(ref err) => {
                                let err = format!("{:?}", err);
                                return self.judge(Prop::C18, "c18.start-class-exact", false, || {
                                    format!("start_class({}, {:?}) with a valid class id failed: {}", show(e), cid, err)
                                });
                            }
                        };
                        obs = Obs::Bool(b);
                        if let Some(d) = &info.dfa {
                            let ranges = self.class_ranges(e);
                            let pts: Vec<u32> = self
                                .alpha
                                .all_points()
                                .into_iter()
                                .filter(|&p| Self::class_of_point(&ranges, p) == cid)
                                .collect();
                            for p in pts {
                                let cell = self.alpha.cell_of(p);
                                let expect = !d.quotient(cell).is_empty_lang();
                                self.eval(Prop::C18, "c18.start-class-exact", d.fingerprint(), 1000 + cell as u64, nontrivial(&info.dfa));
                                self.judge(Prop::C18, "c18.start-class-exact", b == expect, || {
                                    format!(
                                        "start_class({}, {:?}) = {} but for character {:x} of that class {} member string starts with it",
                                        show(e), cid, b, p, if expect { "some" } else { "no" }
                                    )
                                })?;
                            }
                        } else {
                            self.bump("opaque_terms");
                        }
                    }
                }
                self.push_obs(ci, st.op.name(), obs);
                Ok(())
            }
            IncludedIn => {
                let h2 = self.handle(ci, st.a[1]);
                let s = self.clients[ci].pool[h2].re;
                let sinfo = self.info(mi, s);
                let r = guarded(|| e.included_in(s));
                let got = match r {
                    Ok(b) => b,
                    Err(msg) => {
                        return self.judge(Prop::C16, "c16.valid-call-panicked", false, || {
                            format!("{}.included_in({}) panicked: {}", show(e), show(s), msg)
                        })
                    }
                };
                self.log(format!("#{} c{} included_in {} {} -> {}", self.step_idx, ci, show(e), show(s), got));
                if self.on(Prop::C16) && !sinfo.alien {
                    if got {
                        self.bump("probe.included_in_true");
                        if !std::ptr::eq(e, s) {
                            self.bump("probe.included_in_true_distinct_terms");
                        }
                    }
                    if let (Some(a), Some(b)) = (&info.dfa, &sinfo.dfa) {
                        let nt = nontrivial(&info.dfa) && nontrivial(&sinfo.dfa) && !std::ptr::eq(e, s);
                        self.eval(Prop::C16, "c16.included-in-sound", mix(a.fingerprint(), b.fingerprint()), got as u64, nt);
                        if got {
                            if let Some(w) = a.shortest_not_subset(b) {
                                let ina = rmatch(&info.ast, &w).unwrap_or(true);
                                let inb = rmatch(&sinfo.ast, &w).unwrap_or(false);
                                if !(ina && !inb) {
                                    return Err(Stop::Harness(format!(
                                        "R-dfa/R-match disagree on inclusion witness {:?}: {} vs {}",
                                        w, info.ast, sinfo.ast
                                    )));
                                }
                                return self.judge(Prop::C16, "c16.included-in-sound", false, || {
                                    format!(
                                        "{}.included_in({}) = true but the cell string {:?} is in the first language and not in the second",
                                        show(e), show(s), w
                                    )
                                });
                            }
                            self.sample(format!("{}.included_in({}) = true", show(e), show(s)));
                        }
                    } else {
                        self.bump("opaque_terms");
                    }
                }
                self.push_obs(ci, st.op.name(), Obs::Nothing);
                Ok(())
            }
            ClassInfo => self.q_class_info(ci, st, e, &info),
            Compile | TryCompile => {
                let bound: Option<usize> = if st.op == Compile {
                    None
                } else {
                    Some(match st.a[1] % 8 {
                        0 => 1 + st.a[2] as usize,
                        1 => 4 * (1 + st.a[2] as usize),
                        2 => 1_000_000,
                        3 => 0,
                        // bounds far above any state count, around the 32-bit boundary
                        4 => u32::MAX as usize,
                        5 => (1usize << 32) + st.a[2] as usize,
                        6 => (st.a[2] as usize + 1) << 32,
                        _ => usize::MAX,
                    })
                };
                let ms = &mut self.mgrs[mi];
                let r = guarded(|| {
                    ms.m.with(|m| match bound {
                        None => Some(m.compile(e)),
                        Some(b) => m.try_compile(e, b),
                    })
                });
                let got = match r {
                    Ok(a) => a,
                    Err(msg) => {
                        if info.big {
                            self.push_obs(ci, st.op.name(), Obs::Faulted);
                            return Ok(());
                        }
                        return self.judge(Prop::C02, "c02.valid-call-panicked", false, || {
                            format!("{}({}, {:?}) panicked: {}", st.op.name(), show(e), bound, msg)
                        });
                    }
                };
                self.log(format!(
                    "#{} c{} {} {} bound {:?} -> {:?} states",
                    self.step_idx, ci, st.op.name(), show(e), bound, got.as_ref().map(|a| a.num_states())
                ));
                if let Some(a) = &got {
                    if self.on(Prop::C19) {
                        if let Some(b) = bound {
                            self.eval(Prop::C19, "c19.bound-respected", fp(&info.dfa), b as u64, nontrivial(&info.dfa));
                            let n = a.num_states();
                            self.judge(Prop::C19, "c19.bound-respected", n <= b && b > 0, || {
                                format!("try_compile({}, {}) returned an automaton with {} states", show(e), b, n)
                            })?;
                        }
                    }
                    if self.on(Prop::C02) {
                        self.check_automaton(st, e, &info, a)?;
                    }
                } else if bound.is_none() {
                    unreachable!();
                } else {
                    self.bump("fault.F3_try_compile_aborted");
                    // None means "more than `bound` states were counted": with a bound of 2^32 - 1 or
                    // more that cannot have happened in the time the call took
                    let b = bound.unwrap();
                    if b >= u32::MAX as usize {
                        if self.on(Prop::C19) {
                            self.eval(Prop::C19, "c19.try-compile-bound", fp(&info.dfa), b as u64, nontrivial(&info.dfa));
                        }
                        self.judge(Prop::C19, "c19.try-compile-bound", false, || {
                            format!("try_compile({}, {}) returned None although the bound is astronomically larger than the number of derivatives", show(e), b)
                        })?;
                    }
                }
                self.push_obs(ci, st.op.name(), Obs::Nothing);
                Ok(())
            }
            Closure => self.q_closure(ci, st, e, &info),
            Replace | ReplaceAll => self.q_replace(ci, st, e, &info),
            _ => unreachable!(),
        }
    }

    // ---- C01 (b): membership -----------------------------------------------------------

    fn q_str_in_re(&mut self, ci: usize, st: &Step, e: RegLan, hi: usize) -> Result<(), Stop> {
        let mi = self.clients[ci].mgr;
        let info = self.info(mi, e);
        let spec = self.clients[ci].pool[hi].spec.clone();
        let mut rng = Rng::new(self.salt(st));
        // the explicit string, then strings steered by the reference DFA
        let mut tests: Vec<Vec<u32>> = Vec::new();
        tests.push(st.s.iter().map(|&c| self.alpha.point(c % BAD_BASE)).collect());
        // C07: the same term rebuilt on a manager without history must give the same answers
        let mut fresh = if self.on(Prop::C07) && !info.big && info.cost <= COST_CAP {
            fresh_copy(e)
        } else {
            None
        };
        if self.on(Prop::C01) || self.on(Prop::C07) {
            if let Some(d) = &info.dfa {
                // automata with long shortest paths (counted loops) get longer walks
                let extra = if d.n() > 40 { d.n().min(400) } else { 0 };
                let mut cellstrs: Vec<Vec<Cell>> = Vec::new();
                if let Some(w) = d.shortest_accepted() {
                    cellstrs.push(w);
                }
                if let Some(w) = d.shortest_rejected() {
                    cellstrs.push(w);
                }
                for _ in 0..2 {
                    if let Some(w) = d.steered(&mut rng, true, 10 + extra) {
                        // one-edit mutation of a member
                        let mut m = w.clone();
                        match rng.below(3) {
                            0 if !m.is_empty() => {
                                let i = rng.below(m.len() as u64) as usize;
                                m[i] = rng.below(self.k as u64) as Cell;
                            }
                            1 if !m.is_empty() => {
                                let i = rng.below(m.len() as u64) as usize;
                                m.remove(i);
                            }
                            _ => {
                                let i = rng.below(m.len() as u64 + 1) as usize;
                                m.insert(i, rng.below(self.k as u64) as Cell);
                            }
                        }
                        cellstrs.push(w);
                        cellstrs.push(m);
                    }
                    if let Some(w) = d.steered(&mut rng, false, 10 + extra) {
                        cellstrs.push(w);
                    }
                }
                for w in cellstrs {
                    if w.len() <= 420 {
                        tests.push(self.instantiate(&w, &mut rng));
                    }
                }
            }
        }
        // derivatives along a long string can legitimately blow up for terms whose derivative set
        // is large; long strings are only used on terms that pass the sizing probe
        if tests.iter().any(|w| w.len() > LONG_STRING) && !(info.cost <= COST_CAP && !info.big && self.searchable(mi, e)) {
            for w in tests.iter_mut() {
                w.truncate(LONG_STRING);
            }
            self.bump("long_strings_truncated_on_heavy_terms");
        }
        let mut first: Option<bool> = None;
        for (ti, w) in tests.iter().enumerate() {
            let s = smt_str(w);
            let ms = &mut self.mgrs[mi];
            let global = ms.m.global;
            let r = guarded(|| {
                if global {
                    smt::str_in_re(&s, e)
                } else {
                    ms.m.with(|m| m.str_in_re(&s, e))
                }
            });
            let got = match r {
                Ok(b) => b,
                Err(msg) => {
                    if info.big {
                        self.push_obs(ci, st.op.name(), Obs::Faulted);
                        return Ok(());
                    }
                    let wt = self.show_str(w);
                    return self.judge(Prop::C01, "c01.valid-call-panicked", false, || {
                        format!("str_in_re({}, {}) panicked: {}", wt, show(e), msg)
                    });
                }
            };
            if ti == 0 {
                first = Some(got);
                self.log(format!("#{} c{} str_in_re {:x?} {} -> {}", self.step_idx, ci, w, show(e), got));
            }
            if let Some((fm, fe)) = fresh.as_mut() {
                let fe = *fe;
                let s2 = smt_str(w);
                if let Ok(fgot) = guarded(|| fm.str_in_re(&s2, fe)) {
                    self.eval(Prop::C07, "c07.same-answer-on-fresh-manager", fp(&info.dfa), w.len() as u64, nontrivial(&info.dfa));
                    let wt = self.show_str(w);
                    if ti == 1 {
                        self.sample(format!("str_in_re({}, {}) = {} on the shared manager and {} on a copy of the term in a fresh manager", wt, show(e), got, fgot));
                    }
                    self.judge(Prop::C07, "c07.same-answer-on-fresh-manager", fgot == got, || {
                        format!(
                            "str_in_re({}, {}) = {} on the manager with history, but {} when the same term is rebuilt on a fresh manager",
                            wt, show(e), got, fgot
                        )
                    })?;
                }
            }
            if self.on(Prop::C01) {
                let cells = self.alpha.to_cells(w);
                let by_dfa = info.dfa.as_ref().map(|d| d.accepts(&cells));
                // the definitional matcher is cubic: on long strings it is only used when there is
                // no reference automaton
                let by_match = if cells.len() <= 32 || by_dfa.is_none() {
                    rmatch(&info.ast, &cells)
                } else {
                    None
                };
                if let (Some(a), Some(b)) = (by_match, by_dfa) {
                    if a != b {
                        return Err(Stop::Harness(format!(
                            "R-dfa and R-match disagree: {} on {:?}",
                            info.ast, cells
                        )));
                    }
                    self.bump("reference_cross_checks");
                }
                let in_term = match by_dfa.or(by_match) {
                    Some(x) => x,
                    None => {
                        self.bump("membership_reference_unknown");
                        continue;
                    }
                };
                let mut q = crate::rng::DetHasher::new();
                for &c in &cells {
                    q.write_u64(c as u64);
                }
                self.eval(Prop::C01, "c01.membership", fp(&info.dfa), q.finish(), nontrivial(&info.dfa));
                let wt = self.show_str(w);
                self.judge(Prop::C01, "c01.membership", got == in_term, || {
                    format!(
                        "str_in_re({}, {}) = {} but the string is {} the language of that term",
                        wt, show(e), got, if in_term { "in" } else { "not in" }
                    )
                })?;
                let in_spec = if cells.len() <= 32 {
                    rmatch(&spec, &cells)
                } else {
                    None
                };
                let in_spec = match in_spec {
                    Some(x) => x,
                    None => match self.spec_dfa(&spec) {
                        Some(d) => d.accepts(&cells),
                        None => rmatch(&spec, &cells).unwrap_or(in_term),
                    },
                };
                self.judge(Prop::C01, "c01.membership-vs-construction", got == in_spec, || {
                    format!(
                        "str_in_re({}, {}) = {} but the string is {} the SMT-LIB denotation {} of how the term was built",
                        wt, show(e), got, if in_spec { "in" } else { "not in" }, spec
                    )
                })?;
                if ti == 1 {
                    self.sample(format!("str_in_re({}, {}) = {}", wt, show(e), got));
                }
            }
        }
        self.push_obs(ci, st.op.name(), Obs::Bool(first.unwrap_or(false)));
        Ok(())
    }

    // ---- C03 (b)(c): classes ------------------------------------------------------------

    fn q_class_info(&mut self, ci: usize, st: &Step, e: RegLan, info: &Arc<TermInfo>) -> Result<(), Stop> {
        let ranges = self.class_ranges(e);
        let ids: Vec<ClassId> = e.class_ids().collect();
        self.log(format!("#{} c{} class_info {} -> {:x?} ids {}", self.step_idx, ci, show(e), ranges, ids.len()));
        if self.on(Prop::C03) {
            // (c) structure: sorted disjoint ranges, every listed id valid, complement listed iff
            // some point of the alphabet is in no range
            let mut sorted = true;
            for w in ranges.windows(2) {
                if w[0].1 >= w[1].0 {
                    sorted = false;
                }
            }
            for &(a, b) in &ranges {
                if a > b || b > MAX_CHAR {
                    sorted = false;
                }
            }
            self.eval(Prop::C03, "c03.classes-well-formed", fp(&info.dfa), 0, nontrivial(&info.dfa));
            self.judge(Prop::C03, "c03.classes-well-formed", sorted, || {
                format!("the derivative classes of {} are not sorted disjoint intervals: {:x?}", show(e), ranges)
            })?;
            let covered: u64 = ranges.iter().map(|&(a, b)| (b - a + 1) as u64).sum();
            let has_gap = covered < MAX_CHAR as u64 + 1;
            let lists_comp = ids.contains(&ClassId::Complement);
            let all_valid = ids.iter().all(|&c| e.valid_class_id(c));
            let n_int = ids.iter().filter(|c| matches!(c, ClassId::Interval(_))).count();
            let ok = has_gap == lists_comp && all_valid && n_int == ranges.len() && e.valid_class_id(ClassId::Complement) == has_gap;
            self.judge(Prop::C03, "c03.classes-cover-alphabet", ok, || {
                format!(
                    "classes of {}: ranges {:x?}, listed ids {:?}; uncovered characters exist: {}, complement listed: {}, all listed valid: {}",
                    show(e), ranges, ids, has_gap, lists_comp, all_valid
                )
            })?;
            // (b) uniformity on the reference side
            if let Some(d) = &info.dfa {
                let mut rep: HashMap<ClassId, (u32, Dfa)> = HashMap::new();
                for p in self.alpha.all_points() {
                    let cid = Self::class_of_point(&ranges, p);
                    let q = d.quotient(self.alpha.cell_of(p));
                    self.eval(Prop::C03, "c03.class-uniform", d.fingerprint(), p as u64, nontrivial(&info.dfa));
                    match rep.get(&cid) {
                        None => {
                            rep.insert(cid, (p, q));
                        }
                        Some((p0, q0)) => {
                            if *q0 != q {
                                let (p0, w) = (*p0, q0.shortest_diff(&q));
                                return self.judge(Prop::C03, "c03.class-uniform", false, || {
                                    format!(
                                        "characters {:x} and {:x} are in the same derivative class {:?} of {} but their quotients differ on continuation {:?}",
                                        p0, p, cid, show(e), w
                                    )
                                });
                            }
                        }
                    }
                }
                if rep.len() >= 3 {
                    self.sample(format!("classes of {}: {} intervals, uniform over {} test characters", show(e), ranges.len(), self.alpha.all_points().len()));
                }
                // every class, asked through class_derivative, gives the quotient of that class
                if !info.big && info.cost <= COST_CAP {
                    let mi = self.clients[ci].mgr;
                    for cid in ids.iter().copied().take(700) {
                        let (p0, q0) = match rep.get(&cid) {
                            Some(x) => x.clone(),
                            None => continue,
                        };
                        let ms = &mut self.mgrs[mi];
                        let r = guarded(|| ms.m.with(|m| m.class_derivative(e, cid)));
                        let r = match r {
                            Ok(Ok(r)) => r,
                            other => {
                                let txt = format!("{:?}", other.map(|x| x.map(|r| show(r))));
                                return self.judge(Prop::C03, "c03.ok-on-well-defined", false, || {
                                    format!("class_derivative({}, {:?}) for a listed class id -> {}", show(e), cid, txt)
                                });
                            }
                        };
                        let rinfo = self.info(mi, r);
                        if let Some(rd) = &rinfo.dfa {
                            self.eval(Prop::C03, "c03.derivative-is-quotient", d.fingerprint(), mix(11, p0 as u64), nontrivial(&info.dfa));
                            if **rd != q0 {
                                let w = q0.shortest_diff(rd);
                                return self.judge(Prop::C03, "c03.derivative-is-quotient", false, || {
                                    format!(
                                        "class_derivative({}, {:?}) returned {} which is not the quotient by character {:x} of that class (continuation {:?} distinguishes them)",
                                        show(e), cid, show(r), p0, w
                                    )
                                });
                            }
                        }
                    }
                }
            } else {
                self.bump("opaque_terms");
            }
        }
        let _ = st;
        self.push_obs(ci, "class_info", Obs::Nothing);
        Ok(())
    }

    // ---- C02: the automaton ---------------------------------------------------------------

    fn check_automaton(&mut self, st: &Step, e: RegLan, info: &Arc<TermInfo>, a: &Automaton) -> Result<(), Stop> {
        let n = a.num_states();
        // (c) bookkeeping
        let states: Vec<usize> = a.states().map(|s| s.id()).collect();
        let nfinal = a.states().filter(|s| s.is_final()).count();
        let listed_final = guarded(|| a.final_states().count());
        let init = a.initial_state().id();
        self.eval(Prop::C02, "c02.bookkeeping", fp(&info.dfa), 0, nontrivial(&info.dfa));
        let ok = states.len() == n
            && states.iter().enumerate().all(|(i, &id)| i == id)
            && a.num_final_states() == nfinal
            && listed_final == Ok(nfinal)
            && init < n;
        self.judge(Prop::C02, "c02.bookkeeping", ok, || {
            format!(
                "automaton of {}: num_states={} states listed={} num_final_states={} counted={} final_states()={:?} initial={}",
                show(e), n, states.len(), a.num_final_states(), nfinal, listed_final, init
            )
        })?;
        if n > 3000 {
            self.bump("automaton_too_large_skipped");
            return Ok(());
        }
        // letters: low/middle/high of every cell plus the end points of the state's own ranges
        let base = self.alpha.all_points();
        // (a) totality from every state
        let mut succ: Vec<Vec<(u32, usize)>> = Vec::with_capacity(n);
        for sid in 0..n {
            let s = a.state(sid);
            let mut pts = base.clone();
            for r in s.char_ranges() {
                let (x, y) = r.verif_bounds();
                pts.push(x);
                pts.push(y.min(MAX_CHAR));
                if x > 0 {
                    pts.push(x - 1);
                }
                if y < MAX_CHAR {
                    pts.push(y + 1);
                }
            }
            pts.sort_unstable();
            pts.dedup();
            let mut row = Vec::with_capacity(pts.len());
            for &p in &pts {
                let r = guarded(|| a.next(s, p).id());
                self.eval(Prop::C02, "c02.total", fp(&info.dfa), mix(sid as u64, p as u64), nontrivial(&info.dfa));
                match r {
                    Ok(t) if t < n => row.push((p, t)),
                    other => {
                        return self.judge(Prop::C02, "c02.total", false, || {
                            format!(
                                "automaton of {} ({} states): next(state {}, {:x}) -> {:?}",
                                show(e), n, sid, p, other
                            )
                        })
                    }
                }
            }
            succ.push(row);
        }
        // (b) language equality: product of A (driven with concrete code points) and R-dfa
        let d = match &info.dfa {
            Some(d) => d.clone(),
            None => {
                self.bump("opaque_terms");
                return Ok(());
            }
        };
        let nd = d.n();
        let mut seen: HashSet<usize> = HashSet::new();
        let mut pred: HashMap<usize, (usize, u32)> = HashMap::new();
        let mut queue = std::collections::VecDeque::new();
        let start = init * nd;
        seen.insert(start);
        queue.push_back((init, 0u32));
        let mut pairs = 0u64;
        while let Some((sa, sd)) = queue.pop_front() {
            pairs += 1;
            let fa = a.state(sa).is_final();
            let fd = d.fin[sd as usize];
            if fa != fd {
                // rebuild the string
                let mut w: Vec<u32> = Vec::new();
                let mut key = sa * nd + sd as usize;
                while let Some(&(p, c)) = pred.get(&key) {
                    w.push(c);
                    key = p;
                }
                w.reverse();
                let cells = self.alpha.to_cells(&w);
                let in_term = rmatch(&info.ast, &cells).unwrap_or(fd);
                if in_term != fd {
                    return Err(Stop::Harness(format!(
                        "R-dfa and R-match disagree: {} on {:?}",
                        info.ast, cells
                    )));
                }
                let s = smt_str(&w);
                let acc = guarded(|| a.accepts(&s));
                let wt = self.show_str(&w);
                return self.judge(Prop::C02, "c02.language-equal", false, || {
                    format!(
                        "{} of {} ({} states): string {} is {} the language but accepts() = {:?} (state {} final = {})",
                        st.op.name(), show(e), n, wt, if fd { "in" } else { "not in" }, acc, sa, fa
                    )
                });
            }
            for &(p, t) in &succ[sa] {
                let cell = self.alpha.cell_of(p);
                let td = d.step(sd, cell);
                let key = t * nd + td as usize;
                if seen.insert(key) {
                    pred.insert(key, (sa * nd + sd as usize, p));
                    queue.push_back((t, td));
                }
            }
        }
        self.add("c02.product_pairs", pairs);
        self.eval(Prop::C02, "c02.language-equal", d.fingerprint(), n as u64, nontrivial(&info.dfa));
        if n >= 3 {
            self.sample(format!("{}({}) -> {} states, language equal to the reference ({} reference states, {} product pairs)", st.op.name(), show(e), n, nd, pairs));
        }
        // accepts() through every state: the access string of each automaton state, completed by
        // a shortest string the reference accepts from there and by a shortest one it rejects
        let mut rng = Rng::new(self.salt(st));
        if n <= 128 {
            let mut first_pair: Vec<Option<usize>> = vec![None; n];
            let mut keys: Vec<usize> = seen.iter().copied().collect();
            keys.sort_unstable();
            // the pair reached first in the walk is the one without a shorter predecessor chain;
            // any pair of the state will do, take the one with the shortest access string
            let access = |key: usize| -> Vec<u32> {
                let mut w = Vec::new();
                let mut k = key;
                while let Some(&(p, c)) = pred.get(&k) {
                    w.push(c);
                    k = p;
                }
                w.reverse();
                w
            };
            let mut best: Vec<Option<Vec<u32>>> = vec![None; n];
            for key in keys {
                let sa = key / nd;
                let w = access(key);
                if best[sa].as_ref().map_or(true, |b| w.len() < b.len()) {
                    best[sa] = Some(w);
                    first_pair[sa] = Some(key);
                }
            }
            for sa in 0..n {
                let (Some(w), Some(key)) = (best[sa].clone(), first_pair[sa]) else { continue };
                let sd = (key % nd) as u32;
                let from = d.rooted_at(sd);
                for (want, tail) in [(true, from.shortest_accepted()), (false, from.shortest_rejected())] {
                    let Some(tail) = tail else { continue };
                    let mut cw = w.clone();
                    cw.extend(self.instantiate(&tail, &mut rng));
                    let s = smt_str(&cw);
                    let acc = guarded(|| a.accepts(&s));
                    self.eval(Prop::C02, "c02.accepts", d.fingerprint(), mix(5, mix(sa as u64, want as u64)), nontrivial(&info.dfa));
                    let wt = self.show_str(&cw);
                    self.judge(Prop::C02, "c02.accepts", acc == Ok(want), || {
                        format!(
                            "automaton of {} ({} states): accepts({}) = {:?}, expected {} (the string passes through state {})",
                            show(e), n, wt, acc, want, sa
                        )
                    })?;
                }
            }
        }
        // spot check str_next / accepts on a steered string
        for accept in [true, false] {
            if let Some(w) = d.steered(&mut rng, accept, 8) {
                let cw = self.instantiate(&w, &mut rng);
                let s = smt_str(&cw);
                let acc = guarded(|| a.accepts(&s));
                self.eval(Prop::C02, "c02.accepts", d.fingerprint(), mix(3, w.len() as u64), nontrivial(&info.dfa));
                let wt = self.show_str(&cw);
                self.judge(Prop::C02, "c02.accepts", acc == Ok(accept), || {
                    format!("automaton of {}: accepts({}) = {:?}, expected {}", show(e), wt, acc, accept)
                })?;
            }
        }
        Ok(())
    }

    // ---- C19: closure and bounds ----------------------------------------------------------

    /// Bounded liveness for "iter_derivatives terminates": a term that failed the sizing probe
    /// although it is tiny by every measure the reference model has (few distinct sub-terms, small
    /// counters, few classes, at most 16 residual languages) is enumerated up to DEEP_CAP = 20 000
    /// derivatives in a scratch manager. More than that many derivatives, none of them much larger
    /// than the term itself, for a language with at most 16 residuals is reported. On the unchanged
    /// tree no such term fails the sizing probe (600 derivatives) in the first place: the counter
    /// c19.tiny_terms_deep_probed stayed at 0 over 300 000 runs, so the cap is 33 times beyond a
    /// bound that is itself never reached.
    fn tiny_term_liveness(&mut self, mi: usize, e: RegLan, info: &Arc<TermInfo>) -> Result<(), Stop> {
        let small_dfa = matches!(&info.dfa, Some(d) if d.fin.len() <= 16);
        if !small_dfa || info.size > 16 || info.cost > 400 || e.num_deriv_classes() > 8 {
            return Ok(());
        }
        if max_counter(e, &mut std::collections::HashSet::new()) > 6 {
            return Ok(());
        }
        if self.mgrs[mi].deep_done.contains(&key(e)) {
            return Ok(());
        }
        self.mgrs[mi].deep_done.insert(key(e));
        self.bump("c19.tiny_terms_deep_probed");
        match deep_probe(e) {
            Deep::Closed(n) => {
                let cur = self.out.stats.get("c19.tiny_max_closure").copied().unwrap_or(0);
                if n as u64 > cur {
                    self.out.stats.insert("c19.tiny_max_closure", n as u64);
                }
                Ok(())
            }
            Deep::Grew | Deep::Panicked => {
                self.bump("c19.tiny_terms_deep_probe_no_verdict");
                Ok(())
            }
            Deep::Overflow => {
                let states = info.dfa.as_ref().map(|d| d.fin.len()).unwrap_or(0);
                self.eval(Prop::C19, "c19.closure-terminates", fp(&info.dfa), 1, true);
                self.judge(Prop::C19, "c19.closure-terminates", false, || {
                    format!(
                        "iter_derivatives({}) yields more than {} distinct derivatives, all about as small as the term, although the language has only {} residuals and the term has {} sub-terms and no counter above 6: the enumeration does not terminate in any reasonable bound",
                        show(e), DEEP_CAP, states, info.size
                    )
                })
            }
        }
    }

    fn q_closure(&mut self, ci: usize, st: &Step, e: RegLan, info: &Arc<TermInfo>) -> Result<(), Stop> {
        let mi = self.clients[ci].mgr;
        if info.big {
            self.push_obs(ci, st.op.name(), Obs::Nothing);
            return Ok(());
        }
        let ms = &mut self.mgrs[mi];
        let r = guarded(|| {
            ms.m.with(|m| {
                let mut v: Vec<RegLan> = Vec::new();
                let mut it = m.iter_derivatives(e);
                while v.len() <= CLOSURE_CAP {
                    match it.next() {
                        // the iterator hands out `&'a RE` tied to the manager borrow although every
                        // term is a leaked Box (really 'static); the lifetime is extended here so the
                        // items can be passed back to char_derivative, which wants `&'static RE`
                        Some(x) => v.push(unsafe { &*(x as *const aws_smt_strings::regular_expressions::RE) }),
                        None => break,
                    }
                }
                v
            })
        });
        let items = match r {
            Ok(v) => v,
            Err(msg) => {
                return self.judge(Prop::C19, "c19.valid-call-panicked", false, || {
                    format!("iter_derivatives({}) panicked: {}", show(e), msg)
                })
            }
        };
        let n = items.len();
        self.log(format!("#{} c{} closure {} -> {} derivatives", self.step_idx, ci, show(e), n));
        if !self.on(Prop::C19) {
            self.push_obs(ci, st.op.name(), Obs::Nothing);
            return Ok(());
        }
        let nt = nontrivial(&info.dfa);
        let f = fp(&info.dfa);
        self.eval(Prop::C19, "c19.terminates", f, 0, nt);
        let small_ref = info.dfa.as_ref().map(|d| d.n() <= crate::dfa::MIN_CAP).unwrap_or(false);
        if n > CLOSURE_CAP {
            return self.judge(Prop::C19, "c19.terminates", !small_ref, || {
                format!(
                    "iter_derivatives({}) produced more than {} terms although the language has a {}-state minimal DFA",
                    show(e), CLOSURE_CAP, info.dfa.as_ref().unwrap().n()
                )
            });
        }
        self.eval(Prop::C19, "c19.first-is-e", f, 1, nt);
        let first_ok = n >= 1 && std::ptr::eq(items[0], e);
        self.judge(Prop::C19, "c19.first-is-e", first_ok, || {
            format!("iter_derivatives({}) yields {:?} first", show(e), items.first().map(|&x| show(x)))
        })?;
        // pairwise distinct
        let mut index: HashMap<usize, usize> = HashMap::new();
        for (i, &r) in items.iter().enumerate() {
            if let Some(&j) = index.get(&key(r)) {
                return self.judge(Prop::C19, "c19.no-duplicates", false, || {
                    format!("iter_derivatives({}) yields {} twice (positions {} and {})", show(e), show(r), j, i)
                });
            }
            index.insert(key(r), i);
        }
        self.eval(Prop::C19, "c19.no-duplicates", f, n as u64, nt);
        // closed under char_derivative; every item but the first is a derivative of an earlier one
        let pts = self.alpha.all_points();
        let mut has_parent = vec![false; n];
        let limit = 400usize; // items fully expanded (all of them in almost every run)
        let full = n <= limit;
        for (i, &r) in items.iter().enumerate().take(limit) {
            for &p in &pts {
                let ms = &mut self.mgrs[mi];
                let d = guarded(|| ms.m.with(|m| m.char_derivative(r, p)));
                let d = match d {
                    Ok(d) => d,
                    Err(msg) => {
                        return self.judge(Prop::C19, "c19.valid-call-panicked", false, || {
                            format!("char_derivative({}, {:x}) panicked: {}", show(r), p, msg)
                        })
                    }
                };
                self.eval(Prop::C19, "c19.closed", f, mix(i as u64, p as u64), nt);
                match index.get(&key(d)) {
                    Some(&j) => {
                        if j > i {
                            has_parent[j] = true;
                        }
                        if j <= i && j > 0 {
                            // back edge, fine
                        }
                    }
                    None => {
                        return self.judge(Prop::C19, "c19.closed", false, || {
                            format!(
                                "iter_derivatives({}) ({} terms) is not closed: char_derivative({}, {:x}) = {} was not yielded",
                                show(e), n, show(r), p, show(d)
                            )
                        })
                    }
                }
            }
        }
        if full {
            for j in 1..n {
                self.judge(Prop::C19, "c19.only-derivatives", has_parent[j], || {
                    format!(
                        "iter_derivatives({}) yields {} at position {} which is not a derivative of any earlier term",
                        show(e), show(items[j]), j
                    )
                })?;
            }
            self.eval(Prop::C19, "c19.only-derivatives", f, n as u64, nt);
        }
        // bounds
        let mut bounds: Vec<usize> = vec![0, n - 1, n, n + 1, (st.a[1] as usize % (2 * n + 3))];
        bounds.push([u32::MAX as usize, 1usize << 32, (1usize << 32) + n - 1, usize::MAX, 3usize << 32][st.a[1] as usize % 5]);
        bounds.dedup();
        for b in bounds {
            let ms = &mut self.mgrs[mi];
            let r = guarded(|| ms.m.with(|m| m.try_compile(e, b).map(|a| a.num_states())));
            self.eval(Prop::C19, "c19.try-compile-bound", f, mix(n as u64, b as u64), nt);
            let expect = if b >= n && b > 0 { Some(n) } else { None };
            self.judge(Prop::C19, "c19.try-compile-bound", r == Ok(expect), || {
                format!(
                    "{} has {} distinct derivatives; try_compile(e, {}) -> {:?} states, expected {:?}",
                    show(e), n, b, r, expect
                )
            })?;
        }
        let ms = &mut self.mgrs[mi];
        let r = guarded(|| ms.m.with(|m| m.compile(e).num_states()));
        self.eval(Prop::C19, "c19.compile-state-count", f, n as u64, nt);
        self.judge(Prop::C19, "c19.compile-state-count", r == Ok(n), || {
            format!("{} has {} distinct derivatives; compile(e) -> {:?} states", show(e), n, r)
        })?;
        if n >= 3 {
            self.sample(format!("closure of {}: {} derivatives, closed under {} test characters, try_compile exact at {}", show(e), n, pts.len(), n));
        }
        self.push_obs(ci, st.op.name(), Obs::Nothing);
        Ok(())
    }

    // ---- C10: replace -----------------------------------------------------------------------

    fn member(&self, info: &TermInfo, cells: &[Cell]) -> bool {
        match &info.dfa {
            Some(d) => d.accepts(cells),
            None => rmatch(&info.ast, cells).unwrap_or(false),
        }
    }

    /// end of the shortest match starting at position i (allow_empty: the empty match counts),
    /// decided by the reference model; the DFA is stepped incrementally
    fn shortest_match_from(&self, info: &TermInfo, cells: &[Cell], i: usize, allow_empty: bool) -> Option<usize> {
        match &info.dfa {
            Some(d) => {
                let mut q = 0u32;
                if allow_empty && d.fin[0] {
                    return Some(i);
                }
                for j in i..cells.len() {
                    q = d.step(q, cells[j] as usize);
                    if d.fin[q as usize] {
                        return Some(j + 1);
                    }
                }
                None
            }
            None => {
                let from = if allow_empty { i } else { i + 1 };
                (from..=cells.len()).find(|&j| self.member(info, &cells[i..j]))
            }
        }
    }

    /// SMT-LIB str.replace_re on code points, membership decided by the reference model
    fn ref_replace(&self, info: &TermInfo, s: &[u32], t: &[u32]) -> Vec<u32> {
        let cells = self.alpha.to_cells(s);
        for i in 0..=s.len() {
            if let Some(j) = self.shortest_match_from(info, &cells, i, true) {
                let mut out = s[..i].to_vec();
                out.extend_from_slice(t);
                out.extend_from_slice(&s[j..]);
                return out;
            }
        }
        s.to_vec()
    }

    fn ref_replace_all(&self, info: &TermInfo, s: &[u32], t: &[u32]) -> Vec<u32> {
        let cells = self.alpha.to_cells(s);
        let mut out = Vec::new();
        let mut i = 0;
        'outer: loop {
            for p in i..s.len() {
                if let Some(q) = self.shortest_match_from(info, &cells, p, false) {
                    out.extend_from_slice(&s[i..p]);
                    out.extend_from_slice(t);
                    i = q;
                    continue 'outer;
                }
            }
            break;
        }
        out.extend_from_slice(&s[i..]);
        out
    }

    fn q_replace(&mut self, ci: usize, st: &Step, e: RegLan, info: &Arc<TermInfo>) -> Result<(), Stop> {
        let mi = self.clients[ci].mgr;
        if !self.mgrs[mi].m.global || info.big {
            self.push_obs(ci, st.op.name(), Obs::Nothing);
            return Ok(());
        }
        let all = st.op == OpKind::ReplaceAll;
        let mut rng = Rng::new(self.salt(st));
        let t: Vec<u32> = st.t.iter().map(|&c| self.alpha.point(c % BAD_BASE)).collect();
        let mut subjects: Vec<Vec<u32>> = vec![st.s.iter().map(|&c| self.alpha.point(c % BAD_BASE)).collect()];
        if self.on(Prop::C10) {
            if let Some(d) = &info.dfa {
                // subjects that contain zero, one or several (possibly adjacent / overlapping) matches
                for _ in 0..3 {
                    let mut w: Vec<Cell> = Vec::new();
                    let parts = 1 + rng.below(3);
                    for _ in 0..parts {
                        for _ in 0..rng.below(3) {
                            w.push(rng.below(self.k as u64) as Cell);
                        }
                        let piece = if rng.chance(3, 4) {
                            d.steered(&mut rng, true, 4)
                        } else {
                            d.steered(&mut rng, false, 3)
                        };
                        if let Some(m) = piece {
                            w.extend_from_slice(&m);
                        }
                    }
                    for _ in 0..rng.below(2) {
                        w.push(rng.below(self.k as u64) as Cell);
                    }
                    if w.len() <= 12 {
                        subjects.push(self.instantiate(&w, &mut rng));
                    }
                }
            }
        }
        let mut first: Option<Vec<u32>> = None;
        for (si, s) in subjects.iter().enumerate() {
            if s.len() > 24 && info.dfa.is_none() {
                continue;
            }
            if s.len() > LONG_STRING && !(info.cost <= COST_CAP && self.searchable(mi, e)) {
                self.bump("long_strings_truncated_on_heavy_terms");
                continue;
            }
            let (ss, ts) = (smt_str(s), smt_str(&t));
            let r = guarded(|| {
                if all {
                    smt::str_replace_re_all(&ss, e, &ts)
                } else {
                    smt::str_replace_re(&ss, e, &ts)
                }
            });
            let got = match r {
                Ok(x) => x,
                Err(msg) => {
                    return self.judge(Prop::C10, "c10.valid-call-panicked", false, || {
                        format!("{}({:x?}, {}, {:x?}) panicked: {}", st.op.name(), s, show(e), t, msg)
                    })
                }
            };
            let gv = got.as_ref().to_vec();
            if si == 0 {
                self.log(format!("#{} c{} {} {:x?} {} {:x?} -> {:x?}", self.step_idx, ci, st.op.name(), s, show(e), t, gv));
                first = Some(gv.clone());
            }
            if self.on(Prop::C10) {
                let expect = if all {
                    self.ref_replace_all(info, s, &t)
                } else {
                    self.ref_replace(info, s, &t)
                };
                if expect != *s {
                    self.bump("probe.replace_had_a_match");
                }
                let rule = if all { "c10.replace-all" } else { "c10.replace-first" };
                let mut q = crate::rng::DetHasher::new();
                for &c in s {
                    q.write_u64(c as u64);
                }
                self.eval(Prop::C10, rule, fp(&info.dfa), q.finish(), nontrivial(&info.dfa));
                let scells = self.alpha.to_cells(s);
                self.judge(Prop::C10, rule, gv == expect && got.is_good(), || {
                    format!(
                        "{}(s={:x?}, r={}, t={:x?}) = {:x?}, SMT-LIB says {:x?} (cells of s: {:?})",
                        st.op.name(), s, show(e), t, gv, expect, scells
                    )
                })?;
                if si == 1 {
                    self.sample(format!("{}(s={:x?}, r={}, t={:x?}) = {:x?}", st.op.name(), s, show(e), t, gv));
                }
            }
        }
        self.push_obs(ci, st.op.name(), Obs::Text(first.unwrap_or_default()));
        Ok(())
    }

    // ---- fault steps ------------------------------------------------------------------------

    pub(crate) fn step_fault(&mut self, ci: usize, st: &Step) -> Result<(), Stop> {
        use OpKind::*;
        let mi = self.clients[ci].mgr;
        let global = self.mgrs[mi].m.global;
        match st.op {
            BadChar | BadRange | StrBad | LoopOverflow | Reentrant => {
                if st.op == Reentrant && !global {
                    // only meaningful on the thread-local manager; keep the pool aligned
                    let none = self.clients[ci].pool[0].re;
                    self.clients[ci].pool.push(Handle {
                        re: none,
                        spec: crate::ast::empty(),
                        rec: None,
                        cat: Cat::Fault,
                    });
                    self.push_obs(ci, st.op.name(), Obs::Faulted);
                    return Ok(());
                }
                let before = self.mgrs[mi].m.stats();
                let pool0: Vec<RegLan> = self.clients[ci].pool.iter().map(|h| h.re).collect();
                let ms = &mut self.mgrs[mi];
                let k = self.k;
                let alpha = self.alpha.clone();
                let r: Result<(), String> = match st.op {
                    BadChar => {
                        let x = 0x30000 + st.a[0] % 0x1000;
                        guarded(|| {
                            if global {
                                let s = smt_str(&[x]);
                                smt::str_to_re(&s);
                            } else {
                                ms.m.with(|m| {
                                    m.char(x);
                                })
                            }
                        })
                    }
                    BadRange => {
                        let a = st.a[0] as usize % k;
                        let b = st.a[1] as usize % k;
                        let (lo, hi) = (alpha.lo(a.min(b)), alpha.hi(a.max(b)));
                        // reversed (or, for a one-point range, beyond MAX_CHAR)
                        let (x, y) = if hi > lo { (hi, lo) } else { (lo, 0x30000 + lo) };
                        guarded(|| {
                            ms.m.with(|m| {
                                m.range(x, y);
                            })
                        })
                    }
                    StrBad => {
                        let s: Vec<u32> = st
                            .s
                            .iter()
                            .map(|&c| alpha.single(c))
                            .collect();
                        let s = if s.iter().any(|&x| x > MAX_CHAR) { s } else { [s, vec![0x30000]].concat() };
                        guarded(|| {
                            let s = smt_str(&s);
                            if global {
                                smt::str_to_re(&s);
                            } else {
                                ms.m.with(|m| {
                                    m.str(&s);
                                })
                            }
                        })
                    }
                    LoopOverflow => {
                        let h = pool0[st.a[0] as usize % pool0.len()];
                        let variant = st.a[1] % 4;
                        guarded(|| {
                            ms.m.with(|m| {
                                use aws_smt_strings::loop_ranges::LoopRange;
                                match variant {
                                    0 => {
                                        let l = m.mk_loop(h, LoopRange::finite(u32::MAX - 1, u32::MAX));
                                        m.concat(h, l);
                                    }
                                    1 => {
                                        let l = m.mk_loop(h, LoopRange::infinite(u32::MAX));
                                        m.concat(l, l);
                                    }
                                    2 => {
                                        let l = m.mk_loop(h, LoopRange::point(1 << 20));
                                        m.mk_loop(l, LoopRange::point(1 << 20));
                                    }
                                    _ => {
                                        let l = m.mk_loop(h, LoopRange::finite(3, u32::MAX));
                                        let l2 = m.concat(l, l);
                                        m.concat(l2, h);
                                    }
                                }
                            })
                        })
                    }
                    _ => {
                        // F1c: a lazy iterator argument that calls back into the wrappers while the
                        // thread-local manager is mutably borrowed
                        let hs: Vec<RegLan> = st.l.iter().map(|&x| pool0[x as usize % pool0.len()]).collect();
                        let text: Vec<u32> = st.s.iter().map(|&c| alpha.single(c % BAD_BASE)).collect();
                        let kind = st.a[0] % 4;
                        let style = (st.a[0] / 4) % 2;
                        guarded(|| {
                            if style == 0 {
                                // every element is computed by nested wrapper calls
                                let it = hs.iter().map(|&h| {
                                    let s = smt::str_to_re(&smt_str(&text));
                                    smt::re_concat(h, s)
                                }).chain(std::iter::once_with(|| smt::str_to_re(&smt_str(&text))));
                                match kind {
                                    0 => smt::re_concat_list(it),
                                    1 => smt::re_union_list(it),
                                    2 => smt::re_inter_list(it),
                                    _ => smt::re_diff_list(hs.first().copied().unwrap_or(pool0[0]), it),
                                };
                            } else {
                                // ordinary elements followed by one that is built lazily
                                let it = hs.iter().copied().chain(std::iter::once_with(|| smt::str_to_re(&smt_str(&text))));
                                match kind {
                                    0 => smt::re_concat_list(it),
                                    1 => smt::re_union_list(it),
                                    2 => smt::re_inter_list(it),
                                    _ => smt::re_diff_list(hs.first().copied().unwrap_or(pool0[0]), it),
                                };
                            }
                        })
                    }
                };
                let after = self.mgrs[mi].m.stats();
                let name: &'static str = match (st.op, r.is_err()) {
                    (BadChar, true) => "fault.F1a_bad_char_panicked",
                    (BadChar, false) => "fault.F1a_bad_char_returned",
                    (BadRange, true) => "fault.F1a_bad_range_panicked",
                    (BadRange, false) => "fault.F1a_bad_range_returned",
                    (StrBad, true) => "fault.F1b_ill_formed_string_panicked",
                    (StrBad, false) => "fault.F1b_ill_formed_string_returned",
                    (LoopOverflow, true) => "fault.F1a_loop_overflow_panicked",
                    (LoopOverflow, false) => "fault.F1a_loop_overflow_returned",
                    (_, true) => "fault.F1c_reentrant_panicked",
                    (_, false) => "fault.F1c_reentrant_returned",
                };
                self.bump(name);
                if r.is_err() && after.0 > before.0 {
                    self.bump("probe.panic_after_partial_interning");
                }
                self.log(format!(
                    "#{} c{} {} -> {} (terms {} -> {})",
                    self.step_idx, ci, st.op.name(), if r.is_err() { "panic" } else { "returned" }, before.0, after.0
                ));
                // the manager must stay usable: the thread-local RefCell must not stay borrowed
                if global {
                    let again = guarded(|| smt::re_none());
                    let ok = again.is_ok();
                    self.judge(Prop::C07, "c07.manager-usable-after-panic", ok, || {
                        "the thread-local manager is unusable after a caught caller panic".to_string()
                    })?;
                }
                // placeholder handle keeps the client's pool aligned with its isolated replica
                let none = self.clients[ci].pool[0].re;
                self.clients[ci].pool.push(Handle {
                    re: none,
                    spec: crate::ast::empty(),
                    rec: None,
                    cat: Cat::Fault,
                });
                self.push_obs(ci, st.op.name(), Obs::Faulted);
                Ok(())
            }
            Evict => {
                let mode = st.a[0] % 3;
                let modulus = st.a[1].max(2) as usize;
                let ms = &mut self.mgrs[mi];
                let removed = ms.m.with(|m| {
                    m.verif_evict_deriv_cache(|id, cid| match mode {
                        0 => false,
                        1 => id % modulus != 0,
                        _ => matches!(cid, ClassId::Complement),
                    })
                });
                ms.evicted += removed as u64;
                self.add("fault.F2_cache_entries_evicted", removed as u64);
                if removed > 0 {
                    self.bump("fault.F2_evictions_with_effect");
                }
                self.log(format!("#{} c{} evict mode {} -> {} entries", self.step_idx, ci, mode, removed));
                self.push_obs(ci, st.op.name(), Obs::Nothing);
                Ok(())
            }
            IterAbandon => {
                let hi = self.handle(ci, st.a[0]);
                let e = self.clients[ci].pool[hi].re;
                let info = self.info(mi, e);
                if info.alien || info.big || info.cost > COST_CAP || !self.searchable(mi, e) {
                    self.push_obs(ci, st.op.name(), Obs::Nothing);
                    return Ok(());
                }
                let k = st.a[1] as usize;
                let before = self.mgrs[mi].m.stats();
                let ms = &mut self.mgrs[mi];
                let r = guarded(|| {
                    ms.m.with(|m| {
                        let mut it = m.iter_derivatives(e);
                        let mut n = 0;
                        for _ in 0..k {
                            if it.next().is_none() {
                                break;
                            }
                            n += 1;
                        }
                        let more = it.next().is_some();
                        drop(it);
                        (n, more)
                    })
                });
                let after = self.mgrs[mi].m.stats();
                match r {
                    Ok((n, more)) => {
                        if more {
                            self.bump("fault.F3_iterator_abandoned");
                            if after.2 > before.2 {
                                self.bump("probe.abandoned_iterator_left_cache_entries");
                            }
                        }
                        self.log(format!("#{} c{} iter_abandon {} after {} items (more: {})", self.step_idx, ci, show(e), n, more));
                    }
                    Err(msg) => {
                        return self.judge(Prop::C19, "c19.valid-call-panicked", false, || {
                            format!("iter_derivatives({}) panicked: {}", show(e), msg)
                        })
                    }
                }
                self.push_obs(ci, st.op.name(), Obs::Nothing);
                Ok(())
            }
            TrapCall => {
                // F1d: a caller error that only surfaces in the middle of a search over the
                // derivative graph. T1 = ((s1 . A) & Sigma+) . A^[MAX,MAX] (A a single character) is
                // built without complaint; deriving it by s1 makes the library concatenate A with
                // A^MAX, whose loop counter overflows (a documented panic); every other character leads
                // to the empty language, so the graph is tiny and *any* exploration order reaches the
                // panic. T = p . T1 + s3 . B puts the trap one step away from the root, next to the
                // derivative graph of an ordinary handle B.
                let hi = self.handle(ci, st.a[0]);
                let b = self.clients[ci].pool[hi].re;
                let binfo = self.info(mi, b);
                let s1 = self.alpha.single(st.a[2] % BAD_BASE);
                let s3 = self.alpha.single((st.a[2] % BAD_BASE).wrapping_add(1));
                let pch = self.alpha.single((st.a[2] % BAD_BASE).wrapping_add(2));
                if binfo.alien || s3 == pch {
                    self.push_obs(ci, st.op.name(), Obs::Nothing);
                    return Ok(());
                }
                let with_b = !binfo.big && binfo.cost <= COST_CAP && self.searchable(mi, b);
                let variant = st.a[1] % 8;
                let before = self.mgrs[mi].m.stats();
                let ms = &mut self.mgrs[mi];
                let r = guarded(|| {
                    ms.m.with(|m| {
                        use aws_smt_strings::loop_ranges::LoopRange;
                        let a = m.char(s3);
                        let c1 = m.char(s1);
                        let left = m.concat(c1, a);
                        let sp = m.sigma_plus();
                        let guard = m.inter(left, sp);
                        let big = m.mk_loop(a, LoopRange::point(u32::MAX));
                        let t1 = m.concat(guard, big);
                        let p = m.char(pch);
                        let mut t = m.concat(p, t1);
                        if with_b {
                            let c3 = m.char(s3);
                            let side = m.concat(c3, b);
                            t = m.union(t, side);
                        }
                        let w = smt_str(&[pch, s1, s3]);
                        match variant {
                            0 => {
                                m.compile(t);
                            }
                            1 => {
                                m.try_compile(t, 1000);
                            }
                            2 => {
                                m.is_empty_re(t);
                            }
                            3 => {
                                let ct = m.complement(t);
                                let x = m.inter(t, ct);
                                let _ = x;
                                m.get_string(t1);
                            }
                            4 => {
                                m.str_in_re(&w, t);
                            }
                            5 => {
                                let n = m.iter_derivatives(t).take(2000).count();
                                let _ = n;
                            }
                            6 => {
                                let ct = m.complement(t);
                                m.start_char(ct, pch);
                            }
                            _ => {
                                m.str_derivative(t, &w);
                            }
                        }
                    })
                });
                let after = self.mgrs[mi].m.stats();
                if r.is_err() {
                    self.bump("fault.F1d_panic_in_the_middle_of_a_search");
                    if after.2 > before.2 {
                        self.bump("probe.mid_search_panic_left_cache_entries");
                    }
                } else {
                    self.bump("fault.F1d_trap_call_returned");
                }
                self.log(format!(
                    "#{} c{} trap_call variant {} on {} -> {} (terms {} -> {}, cache {} -> {})",
                    self.step_idx, ci, variant, show(b), if r.is_err() { "panic" } else { "returned" },
                    before.0, after.0, before.2, after.2
                ));
                if global {
                    let again = guarded(|| smt::re_none());
                    self.judge(Prop::C07, "c07.manager-usable-after-panic", again.is_ok(), || {
                        "the thread-local manager is unusable after a caught caller panic".to_string()
                    })?;
                }
                self.push_obs(ci, st.op.name(), Obs::Nothing);
                Ok(())
            }
            CompileAbort => {
                let hi = self.handle(ci, st.a[0]);
                let e = self.clients[ci].pool[hi].re;
                let info = self.info(mi, e);
                if info.alien || info.big || info.cost > COST_CAP || !self.searchable(mi, e) {
                    self.push_obs(ci, st.op.name(), Obs::Nothing);
                    return Ok(());
                }
                let b = st.a[1] as usize;
                let before = self.mgrs[mi].m.stats();
                let ms = &mut self.mgrs[mi];
                let r = guarded(|| ms.m.with(|m| m.try_compile(e, b).map(|a| a.num_states())));
                let after = self.mgrs[mi].m.stats();
                match r {
                    Ok(None) => {
                        self.bump("fault.F3_try_compile_aborted");
                        if after.0 > before.0 {
                            self.bump("probe.aborted_compile_left_new_terms");
                        }
                    }
                    Ok(Some(n)) => {
                        if self.on(Prop::C19) {
                            self.eval(Prop::C19, "c19.bound-respected", 0, 0, false);
                        }
                        self.judge(Prop::C19, "c19.bound-respected", n <= b, || {
                            format!("try_compile({}, {}) returned an automaton with {} states", show(e), b, n)
                        })?;
                    }
                    Err(msg) => {
                        return self.judge(Prop::C02, "c02.valid-call-panicked", false, || {
                            format!("try_compile({}, {}) panicked: {}", show(e), b, msg)
                        })
                    }
                }
                self.log(format!("#{} c{} compile_abort {} bound {} -> {:?}", self.step_idx, ci, show(e), b, r));
                self.push_obs(ci, st.op.name(), Obs::Nothing);
                Ok(())
            }
            _ => unreachable!(),
        }
    }
}
