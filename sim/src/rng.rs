//! Self-contained PRNG (splitmix64 seeding + xoshiro256**). No clock, no address, no OS entropy.

#[derive(Clone, Debug)]
pub struct Rng {
    s: [u64; 4],
}

pub fn splitmix64(x: &mut u64) -> u64 {
    *x = x.wrapping_add(0x9E37_79B9_7F4A_7C15);
    let mut z = *x;
    z = (z ^ (z >> 30)).wrapping_mul(0xBF58_476D_1CE4_E5B9);
    z = (z ^ (z >> 27)).wrapping_mul(0x94D0_49BB_1331_11EB);
    z ^ (z >> 31)
}

/// Mix two integers into one seed (used for seed x run-index and for per-step salts)
pub fn mix(a: u64, b: u64) -> u64 {
    let mut x = a ^ b.wrapping_mul(0xD6E8_FEB8_6659_FD93);
    let r = splitmix64(&mut x);
    r ^ splitmix64(&mut x)
}

impl Rng {
    pub fn new(seed: u64) -> Rng {
        let mut x = seed;
        let s = [
            splitmix64(&mut x),
            splitmix64(&mut x),
            splitmix64(&mut x),
            splitmix64(&mut x),
        ];
        Rng { s }
    }

    pub fn next_u64(&mut self) -> u64 {
        let result = self.s[1].wrapping_mul(5).rotate_left(7).wrapping_mul(9);
        let t = self.s[1] << 17;
        self.s[2] ^= self.s[0];
        self.s[3] ^= self.s[1];
        self.s[1] ^= self.s[2];
        self.s[0] ^= self.s[3];
        self.s[2] ^= t;
        self.s[3] = self.s[3].rotate_left(45);
        result
    }

    /// uniform in 0..n (n > 0)
    pub fn below(&mut self, n: u64) -> u64 {
        debug_assert!(n > 0);
        // multiply-shift; bias is irrelevant here
        ((self.next_u64() as u128 * n as u128) >> 64) as u64
    }

    pub fn range(&mut self, lo: u64, hi: u64) -> u64 {
        lo + self.below(hi - lo + 1)
    }

    pub fn u32(&mut self) -> u32 {
        (self.next_u64() >> 32) as u32
    }

    /// true with probability num/den
    pub fn chance(&mut self, num: u64, den: u64) -> bool {
        self.below(den) < num
    }

    /// pick an index according to integer weights (sum > 0)
    pub fn weighted(&mut self, w: &[u32]) -> usize {
        let total: u64 = w.iter().map(|&x| x as u64).sum();
        let mut r = self.below(total.max(1));
        for (i, &x) in w.iter().enumerate() {
            if r < x as u64 {
                return i;
            }
            r -= x as u64;
        }
        w.len() - 1
    }
}

/// Deterministic 64-bit hasher (FNV-1a style with a final mix); used for log hashes and fingerprints.
#[derive(Clone, Debug)]
pub struct DetHasher(pub u64);

impl Default for DetHasher {
    fn default() -> Self {
        DetHasher(0xcbf2_9ce4_8422_2325)
    }
}

impl DetHasher {
    pub fn new() -> Self {
        Self::default()
    }
    pub fn write_u64(&mut self, x: u64) {
        let mut h = self.0;
        for i in 0..8 {
            h ^= (x >> (8 * i)) & 0xff;
            h = h.wrapping_mul(0x0000_0100_0000_01B3);
        }
        self.0 = h;
    }
    pub fn write_bytes(&mut self, b: &[u8]) {
        let mut h = self.0;
        for &x in b {
            h ^= x as u64;
            h = h.wrapping_mul(0x0000_0100_0000_01B3);
        }
        // length terminator
        h ^= 0xff;
        h = h.wrapping_mul(0x0000_0100_0000_01B3);
        self.0 = h;
    }
    pub fn write_str(&mut self, s: &str) {
        self.write_bytes(s.as_bytes())
    }
    pub fn finish(&self) -> u64 {
        let mut x = self.0;
        splitmix64(&mut x)
    }
}
