//! One checked execution = the shared-manager run plus, where the property is about histories,
//! the isolated replica of every client (own fresh manager; for clients of the thread-local
//! manager a fresh OS thread, i.e. fault F4 "thread restart"). Also the replay-file format.

use std::fmt::Write as _;

use crate::exec::*;
use crate::gen::Prop;
use crate::trace::*;

#[derive(Clone, Debug)]
pub struct Checked {
    pub out: Outcome,
    pub replicas_run: u64,
    pub replica_steps_compared: u64,
    pub replica_structure_differs: u64,
    pub misaligned: Option<String>,
    pub diverged: u64,
}

pub fn check_trace(trace: &Trace, props: u32, want_log: bool) -> Checked {
    let cfg = Config {
        props,
        want_log,
        solo: None,
    };
    let mut out = run_trace(trace, &cfg);
    let hung = out.hang.is_some();
    let mut c = Checked {
        out: Outcome::default(),
        replicas_run: 0,
        replica_steps_compared: 0,
        replica_structure_differs: 0,
        misaligned: None,
        diverged: 0,
    };
    if let Some((step, op, in_lib)) = out.hang {
        let _ = owner_of_op;
        // a call into the crate that does not return is a violation of the property that owns the
        // observable (termination is stated by C19 for closure / compilation); a hang outside the
        // crate is a harness error
        if in_lib {
            let prop = owner_of_op(op, props);
            if props & prop.bit() != 0 {
                out.violation = Some(Violation {
                    prop,
                    rule: "call-does-not-return",
                    step,
                    detail: format!("{op} at step {step} did not return within {} s", watchdog_secs()),
                });
            } else {
                out.foreign = Some((prop, "call-does-not-return"));
            }
        } else {
            out.harness = Some(format!("run exceeded the watchdog outside the crate under test (step {step}, {op})"));
        }
    }
    let history = props & (Prop::C07.bit() | Prop::C10.bit()) != 0;
    if history && !hung && out.violation.is_none() && out.harness.is_none() && out.foreign.is_none() {
        for ci in 0..trace.clients.len() {
            if out.obs[ci].is_empty() {
                continue;
            }
            let solo = Config {
                props: 0,
                want_log: false,
                solo: Some(ci as u8),
            };
            let rep = run_trace(trace, &solo);
            c.replicas_run += 1;
            if rep.harness.is_some() || rep.foreign.is_some() || rep.violation.is_some() {
                // the isolated execution itself hit an anomaly that belongs to another property
                *out.stats.entry("replica_not_comparable").or_insert(0) += 1;
                continue;
            }
            if let Some(v) = compare(trace, ci, &out, &rep, props, &mut c) {
                out.violation = Some(v);
                break;
            }
            if let Some(m) = c.misaligned.take() {
                out.harness = Some(m);
                break;
            }
        }
    }
    if c.replicas_run > 0 {
        *out.stats.entry("fault.F4_isolated_replicas_on_fresh_thread").or_insert(0) += c.replicas_run;
    }
    if c.replica_steps_compared > 0 {
        *out.stats.entry("c07.replica_steps_compared").or_insert(0) += c.replica_steps_compared;
        *out.stats.entry("evaluations").or_insert(0) += c.replica_steps_compared;
    }
    if c.diverged > 0 {
        *out.stats.entry("replica_diverged_on_representation_dependent_step").or_insert(0) += c.diverged;
    }
    if c.replica_structure_differs > 0 {
        *out.stats.entry("probe.shared_and_isolated_terms_differ_structurally").or_insert(0) +=
            c.replica_structure_differs;
    }
    c.out = out;
    c
}

/// the property that owns the observable of an operation (used when a call does not return or
/// kills the process): termination of closure / compilation is C19's clause, otherwise the
/// property whose API was being called; if that one is not enabled but the run is a single-property
/// run whose property also depends on the call, the enabled property is blamed
pub fn owner_of_op(op: &str, props: u32) -> Prop {
    let opk = OpKind::from_name(op);
    let p = match opk {
        Some(OpKind::Closure | OpKind::IterAbandon | OpKind::CompileAbort) => Prop::C19,
        Some(OpKind::Compile | OpKind::TryCompile) => {
            if props & Prop::C02.bit() != 0 {
                Prop::C02
            } else {
                Prop::C19
            }
        }
        Some(OpKind::IsEmpty | OpKind::GetString) => Prop::C05,
        Some(OpKind::StartChar | OpKind::StartClass) => Prop::C18,
        Some(OpKind::Replace | OpKind::ReplaceAll) => Prop::C10,
        Some(OpKind::IncludedIn) => Prop::C16,
        Some(OpKind::Reissue | OpKind::EqCheck | OpKind::ComplTwice) => Prop::C07,
        Some(o) if o.cat() == Cat::Deriv || o == OpKind::ClassInfo => Prop::C03,
        _ => Prop::C01,
    };
    p
}

/// index in trace.steps of the n-th step of client ci
fn global_step(trace: &Trace, ci: usize, n: usize) -> usize {
    let nc = trace.clients.len();
    let mut k = 0;
    for (i, s) in trace.steps.iter().enumerate() {
        if s.client as usize % nc == ci {
            if k == n {
                return i;
            }
            k += 1;
        }
    }
    trace.steps.len().saturating_sub(1)
}

fn compare(
    trace: &Trace,
    ci: usize,
    shared: &Outcome,
    iso: &Outcome,
    props: u32,
    c: &mut Checked,
) -> Option<Violation> {
    let a = &shared.obs[ci];
    let b = &iso.obs[ci];
    let n = a.len().min(b.len());
    for i in 0..n {
        let (na, opa, oa) = &a[i];
        let (nb, opb, ob) = &b[i];
        if na != nb || opa != opb {
            // cannot happen: both executions interpret the same program
            c.misaligned = Some(format!(
                "replica misaligned: client {ci}: shared {na} {opa} vs isolated {nb} {opb}"
            ));
            return None;
        }
        c.replica_steps_compared += 1;
        let step = global_step(trace, ci, *na);
        // Requests addressed to "the k-th derivative class" or to a character *set* depend on the
        // class partition, i.e. on the normal form the history happened to produce, not only on the
        // language. If such a step is answered differently the two executions have legitimately
        // diverged (different handles in the pool from here on): stop comparing this client.
        let representation_dependent = matches!(
            *opa,
            "class_deriv" | "class_deriv_unchecked" | "set_deriv" | "set_deriv_unchecked" | "start_class"
        );
        if representation_dependent {
            let same = match (oa, ob) {
                (Obs::Lang(fa, da, na2, _), Obs::Lang(fb, db, nb2, _)) => {
                    fa == fb && na2 == nb2 && da.is_some() == db.is_some()
                }
                (Obs::Bool(x), Obs::Bool(y)) => x == y,
                (Obs::Faulted, Obs::Faulted) | (Obs::Nothing, Obs::Nothing) => true,
                _ => false,
            };
            if !same {
                c.diverged += 1;
                return None;
            }
            continue;
        }
        match (oa, ob) {
            (Obs::Lang(fa, da, nula, sha), Obs::Lang(fb, db, nulb, shb)) => {
                if sha != shb {
                    c.replica_structure_differs += 1;
                }
                if props & Prop::C07.bit() == 0 {
                    continue;
                }
                if let (Some(da), Some(db)) = (da, db) {
                    if fa != fb || **da != **db {
                        let w = da.shortest_diff(db);
                        return Some(Violation {
                            prop: Prop::C07,
                            rule: "c07.history-independent-language",
                            step,
                            detail: format!(
                                "client {ci}, its step {na} ({opa}): the term built on the shared manager and the term built by the same program on a fresh manager denote different languages; shortest distinguishing cell string {:?} (in shared: {})",
                                w,
                                w.as_ref().map(|w| da.accepts(w)).unwrap_or(false)
                            ),
                        });
                    }
                }
                if nula != nulb {
                    return Some(Violation {
                        prop: Prop::C07,
                        rule: "c07.history-independent-language",
                        step,
                        detail: format!(
                            "client {ci}, its step {na} ({opa}): nullable flag {nula} on the shared manager, {nulb} in isolation"
                        ),
                    });
                }
            }
            (Obs::Bool(x), Obs::Bool(y)) => {
                if props & Prop::C07.bit() != 0 && x != y {
                    return Some(Violation {
                        prop: Prop::C07,
                        rule: "c07.history-independent-answers",
                        step,
                        detail: format!(
                            "client {ci}, its step {na}: {opa} answered {x} on the shared manager and {y} when the same program ran alone on a fresh manager"
                        ),
                    });
                }
            }
            (Obs::Text(x), Obs::Text(y)) => {
                if x != y {
                    let (prop, rule) = if props & Prop::C10.bit() != 0 {
                        (Prop::C10, "c10.same-result-after-thread-restart")
                    } else {
                        (Prop::C07, "c07.history-independent-answers")
                    };
                    return Some(Violation {
                        prop,
                        rule,
                        step,
                        detail: format!(
                            "client {ci}, its step {na}: {opa} returned {:x?} on the shared thread-local manager and {:x?} on a fresh thread",
                            x, y
                        ),
                    });
                }
            }
            (Obs::Faulted, Obs::Faulted) | (Obs::Nothing, Obs::Nothing) => {}
            (x, y) => {
                // a fault-injected call that panics in one history and returns in the other keeps the
                // pools aligned (placeholder); any other mix is a real difference of behaviour
                let faultish = matches!(x, Obs::Faulted) || matches!(y, Obs::Faulted);
                if !faultish && props & Prop::C07.bit() != 0 {
                    return Some(Violation {
                        prop: Prop::C07,
                        rule: "c07.history-independent-answers",
                        step,
                        detail: format!("client {ci}, its step {na}: {opa} observed {:?} shared vs {:?} isolated", kind(x), kind(y)),
                    });
                }
            }
        }
    }
    None
}

fn kind(o: &Obs) -> &'static str {
    match o {
        Obs::Lang(..) => "language",
        Obs::Bool(_) => "bool",
        Obs::Text(_) => "text",
        Obs::Faulted => "faulted",
        Obs::Nothing => "nothing",
    }
}

// ---------------------------------------------------------------------------------------------
// replay files
// ---------------------------------------------------------------------------------------------

#[derive(Clone, Debug)]
pub struct Replay {
    pub prop: Prop,
    pub rule: String,
    pub step: usize,
    pub detail: String,
    pub original_steps: usize,
    pub trace: Trace,
    /// event log of the (minimised) trace, for the reader; ignored when parsing
    pub log: Vec<String>,
}

pub fn one_line(s: &str) -> String {
    s.replace('\n', " ").replace('\r', " ")
}

impl Replay {
    pub fn to_text(&self) -> String {
        let mut out = String::new();
        let _ = writeln!(out, "# smtsim replay file: `./check replay <this file>` re-executes the trace in a fresh process");
        let _ = writeln!(out, "property {}", self.prop.name());
        let _ = writeln!(out, "rule {}", self.rule);
        let _ = writeln!(out, "at_step {}", self.step);
        let _ = writeln!(out, "original_steps {}", self.original_steps);
        let _ = writeln!(out, "detail {}", one_line(&self.detail));
        out.push_str(&self.trace.to_text());
        if !self.log.is_empty() {
            let _ = writeln!(out, "# event log of this trace when it was recorded (ids, terms as printed by the crate):");
            for l in &self.log {
                let _ = writeln!(out, "#   {}", one_line(l));
            }
        }
        out
    }

    pub fn from_text(text: &str) -> Result<Replay, String> {
        let mut prop = None;
        let mut rule = String::new();
        let mut step = 0usize;
        let mut detail = String::new();
        let mut original_steps = 0usize;
        for line in text.lines() {
            if let Some(r) = line.strip_prefix("property ") {
                prop = Prop::from_name(r.trim());
            } else if let Some(r) = line.strip_prefix("rule ") {
                rule = r.trim().to_string();
            } else if let Some(r) = line.strip_prefix("at_step ") {
                step = r.trim().parse().map_err(|e| format!("{e}"))?;
            } else if let Some(r) = line.strip_prefix("original_steps ") {
                original_steps = r.trim().parse().map_err(|e| format!("{e}"))?;
            } else if let Some(r) = line.strip_prefix("detail ") {
                detail = r.to_string();
            }
        }
        // "step N" header line is not a trace step: Trace::from_text only takes lines "step c<k> ..."
        let trace = Trace::from_text(text)?;
        Ok(Replay {
            prop: prop.ok_or("no property line")?,
            rule,
            step,
            detail,
            original_steps,
            trace,
            log: Vec::new(),
        })
    }
}
