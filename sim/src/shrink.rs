//! Minimisation of a failing trace: delete clients, chunks of steps, single steps, then shrink
//! operands and the alphabet, while the same property and the same oracle rule keep failing.
//! Every candidate is a complete checked execution on fresh threads.

use crate::exec::Violation;
use crate::gen::Prop;
use crate::runner::check_trace;
use crate::trace::*;

pub struct Shrunk {
    pub trace: Trace,
    pub violation: Violation,
    pub candidates: usize,
    /// minimisation stopped because this process has leaked too much memory (terms are never
    /// freed, and a trace with a million-term ballast leaks 200 MB per candidate); `budget_left`
    /// candidates remain for a fresh process to spend
    pub mem_stop: bool,
    pub budget_left: usize,
}

/// resident set size of this process in kB (0 if unknown)
pub fn resident_kb() -> u64 {
    std::fs::read_to_string("/proc/self/statm")
        .ok()
        .and_then(|t| t.split_whitespace().nth(1).and_then(|x| x.parse::<u64>().ok()))
        .map(|pages| pages * 4)
        .unwrap_or(0)
}

thread_local! {
    static MEM_STOP: std::cell::Cell<bool> = const { std::cell::Cell::new(false) };
}

/// wall-clock limit of one minimisation, across the processes it is handed to: unix seconds in
/// SMTSIM_SHRINK_DEADLINE (set by the first process: start + 240 s). Past it every candidate
/// counts as "does not fail", so the best trace so far is reported; it still replays exactly,
/// it is just less small.
pub fn shrink_deadline() -> u64 {
    if let Some(d) = std::env::var("SMTSIM_SHRINK_DEADLINE").ok().and_then(|x| x.parse::<u64>().ok()) {
        return d;
    }
    new_shrink_deadline()
}

/// start of a minimisation in the first process: now + 240 s, exported for the processes it is
/// handed to
pub fn new_shrink_deadline() -> u64 {
    let now = std::time::SystemTime::now().duration_since(std::time::UNIX_EPOCH).map(|d| d.as_secs()).unwrap_or(0);
    let d = now + 240;
    std::env::set_var("SMTSIM_SHRINK_DEADLINE", d.to_string());
    d
}

fn past_deadline(deadline: u64) -> bool {
    std::time::SystemTime::now().duration_since(std::time::UNIX_EPOCH).map(|d| d.as_secs()).unwrap_or(0) > deadline
}

thread_local! {
    static DEADLINE: std::cell::Cell<u64> = const { std::cell::Cell::new(u64::MAX) };
}

fn fails(tr: &Trace, props: u32, prop: Prop, rule: &str, budget: &mut usize) -> Option<Violation> {
    if *budget == 0 || MEM_STOP.with(|m| m.get()) {
        return None;
    }
    if past_deadline(DEADLINE.with(|d| d.get())) {
        *budget = 0;
        return None;
    }
    if resident_kb() > 2_500_000 {
        MEM_STOP.with(|m| m.set(true));
        return None;
    }
    *budget -= 1;
    let c = check_trace(tr, props, false);
    match c.out.violation {
        Some(v) if v.prop == prop && v.rule == rule => Some(v),
        _ => None,
    }
}

pub fn minimise(trace: &Trace, props: u32, v0: &Violation, max_candidates: usize) -> Shrunk {
    let mut budget = max_candidates;
    MEM_STOP.with(|m| m.set(false));
    DEADLINE.with(|d| d.set(shrink_deadline()));
    let prop = v0.prop;
    let rule = v0.rule;
    let mut best = trace.clone();
    let mut bestv = v0.clone();

    macro_rules! attempt {
        ($cand:expr) => {{
            let cand: Trace = $cand;
            if cand != best {
                if let Some(v) = fails(&cand, props, prop, rule, &mut budget) {
                    best = cand;
                    bestv = v;
                    true
                } else {
                    false
                }
            } else {
                false
            }
        }};
    }

    // 1. cut everything after the failing step; resolve handle operands
    if bestv.step + 1 < best.steps.len() {
        let mut cand = best.clone();
        cand.steps.truncate(bestv.step + 1);
        attempt!(cand);
    }
    {
        let cand = best.normalised();
        if !attempt!(cand) && best.normalised() != best {
            // normalisation must not change the execution; if it does, keep the raw trace and
            // fall back to plain deletion below (still sound, less effective)
        }
    }
    let normal = best.normalised() == best;
    let remove = |t: &Trace, gone: &[bool]| -> Trace {
        if normal {
            t.without(gone)
        } else {
            let mut c = t.clone();
            let mut i = 0;
            c.steps.retain(|_| {
                let keep = !gone[i];
                i += 1;
                keep
            });
            c
        }
    };
    // 2. drop whole clients
    let nc = best.clients.len();
    for c in 0..nc {
        let gone: Vec<bool> = best.steps.iter().map(|s| s.client as usize % nc == c).collect();
        if gone.iter().any(|&g| g) && !gone.iter().all(|&g| g) {
            let cand = remove(&best, &gone);
            attempt!(cand);
        }
    }
    // 3. delta debugging on steps (references to deleted handles fall back to handle 0)
    let mut chunk = (best.steps.len() / 2).max(1);
    loop {
        let mut i = 0;
        let mut progress = false;
        while i < best.steps.len() {
            let end = (i + chunk).min(best.steps.len());
            let gone: Vec<bool> = (0..best.steps.len()).map(|j| j >= i && j < end).collect();
            let cand = remove(&best, &gone);
            if attempt!(cand) {
                progress = true;
            } else {
                i += chunk;
            }
            if budget == 0 || MEM_STOP.with(|m| m.get()) {
                break;
            }
        }
        if budget == 0 || MEM_STOP.with(|m| m.get()) {
            break;
        }
        if chunk == 1 {
            if !progress {
                break;
            }
        } else {
            chunk = (chunk / 2).max(1);
        }
    }
    // 3b. replace handle-producing steps by the constant `none` (cuts dependency chains), then
    // try deletions again
    for round in 0..2 {
        let mut progress = false;
        for i in 0..best.steps.len() {
            if best.steps[i].op.pushes() && best.steps[i].op != OpKind::ReNone {
                let mut cand = best.clone();
                cand.steps[i] = Step::new(best.steps[i].client, OpKind::ReNone);
                if attempt!(cand) {
                    progress = true;
                }
            }
        }
        let mut i = best.steps.len();
        while i > 0 {
            i -= 1;
            if i >= best.steps.len() {
                continue;
            }
            let gone: Vec<bool> = (0..best.steps.len()).map(|j| j == i).collect();
            let cand = remove(&best, &gone);
            if attempt!(cand) {
                progress = true;
            }
        }
        if !progress || budget == 0 {
            break;
        }
        let _ = round;
    }
    // 4. compact clients that no longer act, move everything to fewer clients
    {
        let nc = best.clients.len();
        let mut used: Vec<bool> = vec![false; nc];
        for s in &best.steps {
            used[s.client as usize % nc] = true;
        }
        if used.iter().any(|&u| !u) && used.iter().any(|&u| u) {
            let mut map = vec![0u8; nc];
            let mut clients = Vec::new();
            for c in 0..nc {
                if used[c] {
                    map[c] = clients.len() as u8;
                    clients.push(best.clients[c]);
                }
            }
            let mut cand = best.clone();
            cand.clients = clients;
            for s in cand.steps.iter_mut() {
                s.client = map[s.client as usize % nc];
            }
            attempt!(cand);
        }
    }
    // 5. shrink operands
    let mut changed = true;
    let mut rounds = 0;
    while changed && budget > 0 && rounds < 3 {
        changed = false;
        rounds += 1;
        for i in 0..best.steps.len() {
            // strings and lists: drop elements
            for field in 0..3 {
                let len = match field {
                    0 => best.steps[i].s.len(),
                    1 => best.steps[i].t.len(),
                    _ => best.steps[i].l.len(),
                };
                let mut j = 0;
                let mut cur_len = len;
                while j < cur_len {
                    let mut cand = best.clone();
                    match field {
                        0 => {
                            cand.steps[i].s.remove(j);
                        }
                        1 => {
                            cand.steps[i].t.remove(j);
                        }
                        _ => {
                            cand.steps[i].l.remove(j);
                        }
                    }
                    if attempt!(cand) {
                        changed = true;
                        cur_len -= 1;
                    } else {
                        j += 1;
                    }
                }
            }
            // scalars: towards zero
            for a in 0..3 {
                let x = best.steps[i].a[a];
                if x == 0 {
                    continue;
                }
                for cand_x in [0, x / 2, x - 1] {
                    if cand_x >= best.steps[i].a[a] {
                        continue;
                    }
                    let mut cand = best.clone();
                    cand.steps[i].a[a] = cand_x;
                    if attempt!(cand) {
                        changed = true;
                        break;
                    }
                }
            }
        }
    }
    // 6. fewer cut points
    let mut i = 0;
    while i < best.cuts.len() && budget > 0 {
        let mut cand = best.clone();
        cand.cuts.remove(i);
        if !attempt!(cand) {
            i += 1;
        }
    }
    let mem_stop = MEM_STOP.with(|m| m.get());
    Shrunk {
        trace: best,
        violation: bestv,
        candidates: max_candidates - budget,
        mem_stop,
        budget_left: budget,
    }
}
