//! Explicit, always-executable traces. Every operand is a small integer interpreted modulo what
//! exists at execution time (handle index mod pool size, cell index mod number of cells, ...), so
//! every subsequence of a trace can be executed: minimisation is just deleting and shrinking.

use std::fmt::Write as _;

pub const MAX_CHAR: u32 = 0x2FFFF;
/// character codes >= BAD_BASE denote ill-formed code points 0x30000 + (code - BAD_BASE)
pub const BAD_BASE: u32 = 0xFFFF_0000;

macro_rules! ops {
    ($($name:ident = $txt:expr, $cat:ident;)*) => {
        #[derive(Clone, Copy, Debug, PartialEq, Eq, Hash, PartialOrd, Ord)]
        pub enum OpKind { $($name,)* }
        pub const ALL_OPS: &[OpKind] = &[$(OpKind::$name,)*];
        impl OpKind {
            pub fn name(self) -> &'static str { match self { $(OpKind::$name => $txt,)* } }
            pub fn cat(self) -> Cat { match self { $(OpKind::$name => Cat::$cat,)* } }
            pub fn from_name(s: &str) -> Option<OpKind> { match s { $($txt => Some(OpKind::$name),)* _ => None } }
        }
    };
}

#[derive(Clone, Copy, Debug, PartialEq, Eq)]
pub enum Cat {
    Ctor,
    Deriv,
    Query,
    History,
    Fault,
}

ops! {
    ReNone = "none", Ctor;
    All = "all", Ctor;
    AllChar = "allchar", Ctor;
    Eps = "eps", Ctor;
    Char = "char", Ctor;
    Range = "range", Ctor;
    SmtRange = "smt_range", Ctor;
    Str = "str", Ctor;
    Concat = "concat", Ctor;
    ConcatList = "concat_list", Ctor;
    Union = "union", Ctor;
    UnionList = "union_list", Ctor;
    Inter = "inter", Ctor;
    InterList = "inter_list", Ctor;
    Compl = "compl", Ctor;
    Diff = "diff", Ctor;
    DiffList = "diff_list", Ctor;
    Star = "star", Ctor;
    Plus = "plus", Ctor;
    Opt = "opt", Ctor;
    Exp = "exp", Ctor;
    Loop = "loop", Ctor;
    LoopInf = "loop_inf", Ctor;
    CharDeriv = "char_deriv", Deriv;
    StrDeriv = "str_deriv", Deriv;
    ClassDeriv = "class_deriv", Deriv;
    ClassDerivUnchecked = "class_deriv_unchecked", Deriv;
    SetDeriv = "set_deriv", Deriv;
    SetDerivUnchecked = "set_deriv_unchecked", Deriv;
    StrInRe = "str_in_re", Query;
    IsEmpty = "is_empty", Query;
    GetString = "get_string", Query;
    StartChar = "start_char", Query;
    StartClass = "start_class", Query;
    IncludedIn = "included_in", Query;
    ClassInfo = "class_info", Query;
    Compile = "compile", Query;
    TryCompile = "try_compile", Query;
    Closure = "closure", Query;
    Replace = "replace_re", Query;
    ReplaceAll = "replace_re_all", Query;
    Reissue = "reissue", History;
    EqCheck = "eq_check", History;
    ComplTwice = "compl_twice", History;
    Ballast = "ballast", History;
    BadChar = "bad_char", Fault;
    BadRange = "bad_range", Fault;
    StrBad = "str_bad", Fault;
    LoopOverflow = "loop_overflow", Fault;
    Reentrant = "reentrant", Fault;
    Evict = "evict", Fault;
    IterAbandon = "iter_abandon", Fault;
    CompileAbort = "compile_abort", Fault;
    TrapCall = "trap_call", Fault;
}

#[derive(Clone, Debug, PartialEq, Eq)]
pub struct Step {
    pub client: u8,
    pub op: OpKind,
    pub a: [u32; 3],
    pub s: Vec<u32>,
    pub t: Vec<u32>,
    pub l: Vec<u32>,
}

impl Step {
    pub fn new(client: u8, op: OpKind) -> Step {
        Step {
            client,
            op,
            a: [0; 3],
            s: Vec::new(),
            t: Vec::new(),
            l: Vec::new(),
        }
    }
    pub fn a(mut self, a0: u32, a1: u32, a2: u32) -> Step {
        self.a = [a0, a1, a2];
        self
    }
    pub fn s(mut self, s: Vec<u32>) -> Step {
        self.s = s;
        self
    }
    pub fn t(mut self, t: Vec<u32>) -> Step {
        self.t = t;
        self
    }
    pub fn l(mut self, l: Vec<u32>) -> Step {
        self.l = l;
        self
    }
}

#[derive(Clone, Debug, PartialEq, Eq)]
pub struct Trace {
    pub seed: u64,
    /// start points of cells 1.. (cell 0 starts at 0); sorted, distinct, in 1..=MAX_CHAR
    pub cuts: Vec<u32>,
    /// manager index of each client: 0 = the thread-local manager behind the SMT-LIB wrappers,
    /// 1.. = explicit ReManager instances
    pub clients: Vec<u8>,
    pub steps: Vec<Step>,
}

/// The run's alphabet abstraction
#[derive(Clone, Debug)]
pub struct Alphabet {
    pub starts: Vec<u32>,
    pub singles: Vec<usize>,
}

impl Alphabet {
    pub fn new(cuts: &[u32]) -> Alphabet {
        let mut starts = vec![0u32];
        for &c in cuts {
            if c > *starts.last().unwrap() && c <= MAX_CHAR {
                starts.push(c);
            }
        }
        let mut a = Alphabet {
            starts,
            singles: Vec::new(),
        };
        for i in 0..a.k() {
            if a.lo(i) == a.hi(i) {
                a.singles.push(i);
            }
        }
        a
    }
    pub fn k(&self) -> usize {
        self.starts.len()
    }
    pub fn lo(&self, cell: usize) -> u32 {
        self.starts[cell]
    }
    pub fn hi(&self, cell: usize) -> u32 {
        if cell + 1 < self.starts.len() {
            self.starts[cell + 1] - 1
        } else {
            MAX_CHAR
        }
    }
    pub fn mid(&self, cell: usize) -> u32 {
        let (l, h) = (self.lo(cell), self.hi(cell));
        l + (h - l) / 2
    }
    pub fn cell_of(&self, x: u32) -> usize {
        // largest i with starts[i] <= x
        match self.starts.binary_search(&x) {
            Ok(i) => i,
            Err(i) => i - 1,
        }
    }
    /// decode a query-character code: any cell, low / middle / high point
    pub fn point(&self, code: u32) -> u32 {
        if code >= BAD_BASE {
            return 0x30000 + (code - BAD_BASE) % 0x1000;
        }
        let cell = (code / 3) as usize % self.k();
        match code % 3 {
            0 => self.lo(cell),
            1 => self.mid(cell),
            _ => self.hi(cell),
        }
    }
    /// decode a constructor-character code: a singleton cell (cell 0's low point if none exists)
    pub fn single(&self, code: u32) -> u32 {
        if code >= BAD_BASE {
            return 0x30000 + (code - BAD_BASE) % 0x1000;
        }
        if self.singles.is_empty() {
            // degenerate alphabet: still executable
            return self.lo(0);
        }
        self.lo(self.singles[code as usize % self.singles.len()])
    }
    pub fn has_singles(&self) -> bool {
        !self.singles.is_empty()
    }
    /// all test points: low/middle/high of every cell, distinct, ascending
    pub fn all_points(&self) -> Vec<u32> {
        let mut v = Vec::new();
        for c in 0..self.k() {
            v.push(self.lo(c));
            v.push(self.mid(c));
            v.push(self.hi(c));
        }
        v.sort_unstable();
        v.dedup();
        v
    }
    pub fn to_cells(&self, w: &[u32]) -> Vec<crate::dfa::Cell> {
        w.iter().map(|&x| self.cell_of(x) as crate::dfa::Cell).collect()
    }
}

fn list(out: &mut String, v: &[u32]) {
    out.push('[');
    for (i, x) in v.iter().enumerate() {
        if i > 0 {
            out.push(',');
        }
        let _ = write!(out, "{x}");
    }
    out.push(']');
}

fn parse_list(s: &str) -> Result<Vec<u32>, String> {
    let s = s.trim();
    let inner = s
        .strip_prefix('[')
        .and_then(|x| x.strip_suffix(']'))
        .ok_or_else(|| format!("bad list {s}"))?;
    if inner.trim().is_empty() {
        return Ok(vec![]);
    }
    inner
        .split(',')
        .map(|x| x.trim().parse::<u32>().map_err(|e| format!("{e}: {x}")))
        .collect()
}

impl Step {
    pub fn to_line(&self) -> String {
        let mut out = String::new();
        let _ = write!(
            out,
            "step c{} {} {} {} {} ",
            self.client,
            self.op.name(),
            self.a[0],
            self.a[1],
            self.a[2]
        );
        list(&mut out, &self.s);
        out.push(' ');
        list(&mut out, &self.t);
        out.push(' ');
        list(&mut out, &self.l);
        out
    }

    pub fn from_line(line: &str) -> Result<Step, String> {
        let mut it = line.split_whitespace();
        if it.next() != Some("step") {
            return Err(format!("not a step line: {line}"));
        }
        let c = it.next().ok_or("missing client")?;
        let client: u8 = c
            .strip_prefix('c')
            .ok_or("client")?
            .parse()
            .map_err(|e| format!("{e}"))?;
        let opname = it.next().ok_or("missing op")?;
        let op = OpKind::from_name(opname).ok_or_else(|| format!("unknown op {opname}"))?;
        let mut a = [0u32; 3];
        for x in a.iter_mut() {
            *x = it
                .next()
                .ok_or("missing operand")?
                .parse()
                .map_err(|e| format!("{e}"))?;
        }
        let s = parse_list(it.next().ok_or("missing s")?)?;
        let t = parse_list(it.next().ok_or("missing t")?)?;
        let l = parse_list(it.next().ok_or("missing l")?)?;
        Ok(Step {
            client,
            op,
            a,
            s,
            t,
            l,
        })
    }
}

impl Trace {
    pub fn to_text(&self) -> String {
        let mut out = String::new();
        let _ = writeln!(out, "seed {}", self.seed);
        let mut cuts = String::new();
        list(&mut cuts, &self.cuts);
        let _ = writeln!(out, "cuts {cuts}");
        let cl: Vec<u32> = self.clients.iter().map(|&x| x as u32).collect();
        let mut cls = String::new();
        list(&mut cls, &cl);
        let _ = writeln!(out, "clients {cls}");
        for s in &self.steps {
            let _ = writeln!(out, "{}", s.to_line());
        }
        out
    }

    pub fn from_text(text: &str) -> Result<Trace, String> {
        let mut seed = 0u64;
        let mut cuts = Vec::new();
        let mut clients = Vec::new();
        let mut steps = Vec::new();
        for line in text.lines() {
            let line = line.trim();
            if line.is_empty() || line.starts_with('#') {
                continue;
            }
            if let Some(r) = line.strip_prefix("seed ") {
                seed = r.trim().parse().map_err(|e| format!("{e}"))?;
            } else if let Some(r) = line.strip_prefix("cuts ") {
                cuts = parse_list(r)?;
            } else if let Some(r) = line.strip_prefix("clients ") {
                clients = parse_list(r)?.into_iter().map(|x| x as u8).collect();
            } else if line.starts_with("step ") {
                steps.push(Step::from_line(line)?);
            }
            // other lines (property, rule, detail ...) belong to the replay wrapper
        }
        if clients.is_empty() {
            return Err("no clients".into());
        }
        Ok(Trace {
            seed,
            cuts,
            clients,
            steps,
        })
    }
}

// ---------------------------------------------------------------------------------------------
// static structure of a trace: which operands are handle references, which steps add a handle
// ---------------------------------------------------------------------------------------------

/// handles every client starts with (none, epsilon, allchar)
pub const INITIAL_POOL: usize = 3;

impl OpKind {
    /// (number of leading scalar operands that are handle references, list `l` holds handles)
    pub fn handle_refs(self) -> (usize, bool) {
        use OpKind::*;
        match self {
            Concat | Union | Inter | Diff | IncludedIn | EqCheck => (2, false),
            ConcatList | UnionList | InterList | Reentrant => (0, true),
            DiffList => (1, true),
            Compl | Star | Plus | Opt | Exp | Loop | LoopInf | CharDeriv | StrDeriv | ClassDeriv
            | ClassDerivUnchecked | SetDeriv | SetDerivUnchecked | StrInRe | IsEmpty | GetString
            | StartChar | StartClass | ClassInfo | Compile | TryCompile | Closure | Replace
            | ReplaceAll | Reissue | ComplTwice | LoopOverflow | IterAbandon | CompileAbort | TrapCall => {
                (1, false)
            }
            ReNone | All | AllChar | Eps | Char | Range | SmtRange | Str | BadChar | BadRange
            | StrBad | Evict | Ballast => (0, false),
        }
    }

    /// does the step append one handle to its client's pool?
    pub fn pushes(self) -> bool {
        match self.cat() {
            Cat::Ctor | Cat::Deriv => true,
            Cat::Fault => matches!(
                self,
                OpKind::BadChar | OpKind::BadRange | OpKind::StrBad | OpKind::LoopOverflow | OpKind::Reentrant
            ),
            _ => false,
        }
    }
}

impl Trace {
    /// rewrite every handle operand to the pool index it resolves to (same execution)
    pub fn normalised(&self) -> Trace {
        let nc = self.clients.len();
        let mut pool = vec![INITIAL_POOL; nc];
        let mut t = self.clone();
        for st in t.steps.iter_mut() {
            let c = st.client as usize % nc;
            st.client = c as u8;
            let (na, l) = st.op.handle_refs();
            for i in 0..na {
                st.a[i] = (st.a[i] as usize % pool[c]) as u32;
            }
            if l {
                for x in st.l.iter_mut() {
                    *x = (*x as usize % pool[c]) as u32;
                }
            }
            if st.op.pushes() {
                pool[c] += 1;
            }
        }
        t
    }

    /// remove the steps whose index is in `gone` from a normalised trace, renumbering the handle
    /// references of the remaining steps; references to removed handles become handle 0 (none)
    pub fn without(&self, gone: &[bool]) -> Trace {
        let nc = self.clients.len();
        // per client: map old pool index -> new pool index (or None)
        let mut maps: Vec<Vec<Option<u32>>> = (0..nc)
            .map(|_| (0..INITIAL_POOL as u32).map(Some).collect())
            .collect();
        let mut next: Vec<u32> = vec![INITIAL_POOL as u32; nc];
        let mut t = Trace {
            seed: self.seed,
            cuts: self.cuts.clone(),
            clients: self.clients.clone(),
            steps: Vec::new(),
        };
        for (i, st) in self.steps.iter().enumerate() {
            let c = st.client as usize % nc;
            if gone[i] {
                if st.op.pushes() {
                    maps[c].push(None);
                }
                continue;
            }
            let mut s2 = st.clone();
            let (na, l) = st.op.handle_refs();
            let m = &maps[c];
            let map = |x: u32| -> u32 { m.get(x as usize).copied().flatten().unwrap_or(0) };
            for k in 0..na {
                s2.a[k] = map(s2.a[k]);
            }
            if l {
                for x in s2.l.iter_mut() {
                    *x = map(*x);
                }
            }
            if st.op.pushes() {
                maps[c].push(Some(next[c]));
                next[c] += 1;
            }
            t.steps.push(s2);
        }
        t
    }
}
