#!/bin/bash
# tools/intake.sh <property> <agent worktree> <name>: confirm an independently written breaking change
# (unit tests pass with it, demo fails with it and passes without it) in a fresh scratch worktree,
# then store patch.diff, demo.rs, notes.md and meta.json under /verif/seeded/<name>/.
set -u
P="$1"; WT="$2"; NAME="$3"
ROOT="$(cd "$(dirname "${BASH_SOURCE[0]}")/.." && pwd)"
V=/tmp/intake_$$
git -C /repo worktree add -q --detach "$V" HEAD || exit 2
trap 'git -C /repo worktree remove --force "$V" 2>/dev/null; rm -rf "$V"' EXIT
mkdir -p "$V/tests"; cp "$WT/tests/demo.rs" "$V/tests/demo.rs"
cd "$V"
clean_demo="$(cargo test --offline --test demo 2>&1 | grep -E '^test result' | tail -1)"
git apply "$WT/patch.diff" || { echo "patch does not apply"; exit 1; }
unit="$(cargo test --lib --offline 2>&1 | grep -E '^test result' | tail -1)"
doc="$(cargo test --doc --offline 2>&1 | grep -E '^test result' | tail -1)"
bug_demo="$(cargo test --offline --test demo 2>&1 | grep -E '^test result' | tail -1)"
echo "clean demo : $clean_demo"; echo "unit w/ bug: $unit"; echo "doc  w/ bug: $doc"; echo "demo w/ bug: $bug_demo"
ok=1
[[ "$clean_demo" == *"ok."* ]] || ok=0
[[ "$unit" == *"ok. 60 passed"* ]] || ok=0
[[ "$bug_demo" == *"FAILED"* ]] || ok=0
if [ $ok = 1 ]; then
  D="$ROOT/seeded/$NAME"; mkdir -p "$D"
  cp "$WT/patch.diff" "$D/patch.diff"; cp "$WT/tests/demo.rs" "$D/demo.rs"; cp "$WT/notes.md" "$D/notes.md" 2>/dev/null
  python3 - "$D" "$P" "$clean_demo" "$unit" "$doc" "$bug_demo" <<'PY'
import json,sys
d,p,cd,u,doc,bd=sys.argv[1:7]
json.dump({"property":p,"source":"independent sub-agent given only the property text and a scratch worktree","needs_to_manifest":"see notes.md","confirmed":{"demo_on_clean_tree":cd,"unit_tests_with_change":u,"doc_tests_with_change":doc,"demo_with_change":bd},"checks_run":{}},open(d+'/meta.json','w'),indent=1)
PY
  echo "stored in $D"
else
  echo "NOT CONFIRMED"; exit 1
fi
