#!/bin/bash
# Sensitivity suite: apply each behaviour-changing patch (own mutants in tools/mutants, independent
# seeded changes in seeded/*/patch.diff) to /repo's working tree, run the checks named in its
# .expect / meta.json (or all nine with ALL=1), record which fire, and undo the patch straight away.
# Usage: tools/sensitivity.sh [pattern]      env: RUNS (default 30000), ALL=1
set -u
ROOT="$(cd "$(dirname "${BASH_SOURCE[0]}")/.." && pwd)"
RUNS="${RUNS:-30000}"
PAT="${1:-}"
OUT="$ROOT/tools/sensitivity_last.txt"
export SMTSIM_EVIDENCE_DIR="$ROOT/sim/target/tmp/sensitivity-evidence"
mkdir -p "$SMTSIM_EVIDENCE_DIR"
: > "$OUT"
if ! git -C /repo diff --quiet; then echo "/repo has uncommitted changes; refusing"; exit 2; fi
trap 'git -C /repo checkout -- . 2>/dev/null' EXIT
ALLP="C01 C02 C03 C05 C07 C10 C16 C18 C19"
for d in "$ROOT"/tools/mutants/*.diff "$ROOT"/seeded/*/patch.diff; do
  [ -f "$d" ] || continue
  case "$d" in *"$PAT"*) ;; *) continue ;; esac
  if [[ "$d" == */seeded/* ]]; then
    name="seeded/$(basename "$(dirname "$d")")"
    exp="$(python3 -c "import json,sys; print(json.load(open(sys.argv[1])).get('property',''))" "$(dirname "$d")/meta.json" 2>/dev/null)"
  else
    name="$(basename "$d" .diff)"; exp="$(cat "${d%.diff}.expect" 2>/dev/null)"
  fi
  props="$exp"; [ "${ALL:-0}" = 1 ] && props="$ALLP"
  if ! git -C /repo apply "$d"; then echo "$name: PATCH DOES NOT APPLY" | tee -a "$OUT"; continue; fi
  line="$name: expected[$exp]"
  for p in $props; do
    res="$(SMTSIM_QUICK_RUNS=$RUNS "$ROOT/check" "$p" quick 2>&1)"; rc=$?
    rule="$(echo "$res" | grep -m1 -o 'rule=[^ ]*')"
    runs="$(echo "$res" | grep -o 'runs=[0-9]*' | tail -1)"
    line="$line $p:rc=$rc${rule:+($rule)}[$runs]"
  done
  git -C /repo checkout -- .
  echo "$line" | tee -a "$OUT"
done
# evidence of these runs goes to sim/target/tmp/sensitivity-evidence, not to /verif/evidence
