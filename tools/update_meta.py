#!/usr/bin/env python3
# copies the per-check results of the last complete tools/sensitivity.sh run into seeded/*/meta.json
import json, re, os, sys
root = os.path.dirname(os.path.dirname(os.path.abspath(__file__)))
n = 0
for line in open(os.path.join(root, 'tools', 'sensitivity_last.txt')):
    m = re.match(r'seeded/(\S+): expected\[[^\]]*\] (.*)$', line.strip())
    if not m:
        continue
    name, rest = m.group(1), m.group(2)
    runs = {}
    for r in re.finditer(r'(C\d\d):rc=(\d)(?:\(rule=([^)]*)\))?\[runs=(\d+)\]', rest):
        chk, rc, rule, k = r.group(1), int(r.group(2)), r.group(3), int(r.group(4))
        runs[chk] = {'exit': rc, 'runs': k}
        if rule:
            runs[chk]['rule'] = rule
    p = os.path.join(root, 'seeded', name, 'meta.json')
    if not os.path.exists(p):
        continue
    d = json.load(open(p))
    d['checks_run'] = runs
    json.dump(d, open(p, 'w'), indent=1)
    n += 1
print('updated', n)
